package main

// Hearsay group: the responder R learns records the way the system really
// learns them, and the monitor keeps its OWN ground truth of which nodes R
// has ever heard from.
//
//   - B1..Bk are scripted peers on the hub, in R's table (added by the monitor as
//     checked: they are real endpoints that answer). When R's lookup sends them
//     FINDNODES they answer with validly v4-signed records X1..Xm of nodes that do
//     not exist (nobody listens at their endpoints), lying at exactly the
//     log-distances (from B) that R requested, and with records of Y1..Yj, scripted
//     peers that do exist and answer. Z is one more existing peer nobody lists: R pings
//     it directly (real ping call) while the lookup runs, so it enters the table as
//     checked without the monitor's doing — the oracle's "R heard from it" branch.
//   - R.P.Lookup(target) runs the real lookup (lookup worker, find-nodes call,
//     response filtering, table insertion).
//   - While the lookup runs and after it, askers send FINDNODES to R for the
//     log-distances (from R) at which the X's sit.
//
// Oracle ("only liveness-checked table entries"): a record other than the local
// one may be offered only if the monitor itself inserted it as checked, or at
// least one datagram from the record's endpoint has ever been addressed to R on
// the hub (a node R never received a datagram from cannot have answered R). The
// table's own live flag is NOT consulted. X's never send anything, so no X may
// appear in any reply, ever.

import (
	"crypto/ecdsa"
	"encoding/binary"
	"fmt"
	"math/rand"
	"net"
	"net/netip"
	"sort"
	"sync"
	"time"

	"github.com/ethereum/go-ethereum/p2p/enode"
	"github.com/ethereum/go-ethereum/p2p/enr"
	"github.com/ethereum/go-ethereum/rlp"
	"github.com/zen-eth/shisui/portalwire"
	"verifharness/lib"
	"verifharness/pnode"
)

const sigNeverContacted = "responder:record-never-contacted-offered-as-live"

type hsVariant struct {
	name   string
	rClass string
	rAddr  netip.AddrPort
	bAddr  func(i int) netip.AddrPort
	yAddr  func(i int) netip.AddrPort
	xKinds []string // address classes of the dead records, cycled: "lan" | "loop" | "public"
	askers []askerDef
}

// Address plans. A record with a LAN (loopback) address passes the asking side's
// relay check only when it comes from a LAN or loopback (loopback) responder, and
// is relayed by R only to such askers; LAN and loopback addresses are exempt from
// the table's per-/24 limits, the public ones each get their own /24.
var hsVariants = []hsVariant{
	{
		name: "lan", rClass: "R-lan", rAddr: pnode.Addr4(10, 20, 30, 40, 9000),
		bAddr:  func(i int) netip.AddrPort { return pnode.Addr4(10, 50, 0, byte(1+i), uint16(9301+i)) },
		yAddr:  func(i int) netip.AddrPort { return pnode.Addr4(10, 60, 0, byte(1+i), uint16(9401+i)) },
		xKinds: []string{"lan"},
		askers: []askerDef{{"lan10", pnode.Addr4(10, 1, 2, 3, 9102)}, {"loopback", pnode.Addr4(127, 0, 0, 2, 9101)}, {"lan192", pnode.Addr4(192, 168, 7, 9, 9103)}},
	},
	{
		name: "public", rClass: "R-public", rAddr: pnode.Addr4(52, 14, 7, 9, 9000),
		bAddr:  func(i int) netip.AddrPort { return pnode.Addr4(99, byte(10+i), 1, 5, uint16(9301+i)) },
		yAddr:  func(i int) netip.AddrPort { return pnode.Addr4(34, byte(10+i), 1, 5, uint16(9401+i)) },
		xKinds: []string{"public"},
		askers: []askerDef{{"public", pnode.Addr4(8, 8, 4, 4, 9104)}, {"lan10", pnode.Addr4(10, 1, 2, 3, 9102)}, {"loopback", pnode.Addr4(127, 0, 0, 2, 9101)}},
	},
	{
		name: "loopback", rClass: "R-loopback", rAddr: pnode.Addr4(127, 0, 0, 1, 9000),
		bAddr:  func(i int) netip.AddrPort { return pnode.Addr4(127, 0, 5, byte(1+i), uint16(9301+i)) },
		yAddr:  func(i int) netip.AddrPort { return pnode.Addr4(127, 0, 6, byte(1+i), uint16(9401+i)) },
		xKinds: []string{"loop", "lan"},
		askers: []askerDef{{"loopback", pnode.Addr4(127, 0, 0, 2, 9101)}, {"loopback", pnode.Addr4(127, 9, 9, 9, 9108)}, {"lan10", pnode.Addr4(10, 1, 2, 3, 9102)}},
	},
	{
		name: "mixed", rClass: "R-lan192", rAddr: pnode.Addr4(192, 168, 1, 10, 9000),
		bAddr:  func(i int) netip.AddrPort { return pnode.Addr4(10, 50, 0, byte(1+i), uint16(9301+i)) },
		yAddr:  func(i int) netip.AddrPort { return pnode.Addr4(172, 16, 9, byte(1+i), uint16(9401+i)) },
		xKinds: []string{"public", "lan"},
		askers: []askerDef{{"lan192", pnode.Addr4(192, 168, 7, 9, 9103)}, {"public", pnode.Addr4(1, 2, 3, 4, 9105)}, {"lan172", pnode.Addr4(172, 16, 5, 5, 9106)}},
	},
}

const (
	hsPeers       = 3 // B's: all of them are asked in the lookup's first round (alpha = 3)
	hsLivePeers   = 2 // Y's
	hsPerDistance = 2 // dead records a B lists per requested distance
)

// what the monitor knows about a record it created
type hsOrigin struct {
	kind string // "B" | "X" | "Y" | "Z" | "asker"
	via  int    // X: index of the B listing it
	dB   int    // X: log-distance from that B
	ldR  int    // log-distance from R
	ep   netip.AddrPort
	node *enode.Node
}

type hsPeer struct {
	adv    *pnode.Adversary
	byDist map[int][]*enode.Node // dead records by log-distance from this peer

	mu     sync.Mutex
	asked  int     // FINDNODES received from R
	dists  [][]int // distance lists R sent
	served map[enode.ID]bool
}

type hsWorld struct {
	*respWorld
	real    int
	variant hsVariant
	target  enode.ID

	origin      map[enode.ID]*hsOrigin // fixed before the lookup starts
	monitorLive map[enode.ID]bool      // inserted by the monitor as liveness-checked
	peers       []*hsPeer
	live        []*pnode.Adversary

	hmu        sync.Mutex
	heard      map[netip.AddrPort]int // datagrams addressed to R, by source endpoint
	xEntry     map[enode.ID]bool      // X's seen as bucket entries of R's table
	xLiveFlag  map[enode.ID]bool      // … with the table's live flag set (information only)
	yEntry     map[enode.ID]bool
	xOffered   map[enode.ID]bool
	maxXInSnap int
}

func (h *hsWorld) tapAll(d pnode.Datagram, p []byte) {
	h.respWorld.tap(d, p)
	if d.Dst == h.R.Conn.AddrPort() {
		h.hmu.Lock()
		h.heard[d.Src]++
		h.hmu.Unlock()
	}
}

func (h *hsWorld) heardFrom(ep netip.AddrPort) int {
	h.hmu.Lock()
	defer h.hmu.Unlock()
	return h.heard[ep]
}

// noteSnap records which hearsay records are bucket entries; returns the number of X entries.
func (h *hsWorld) noteSnap(s portalwire.VerifTableSnap) int {
	n := 0
	h.hmu.Lock()
	defer h.hmu.Unlock()
	for _, b := range s.Buckets {
		for _, e := range b.Entries {
			o := h.origin[e.ID]
			if o == nil {
				continue
			}
			switch o.kind {
			case "X":
				n++
				h.xEntry[e.ID] = true
				if e.Live {
					h.xLiveFlag[e.ID] = true
				}
			case "Y":
				h.yEntry[e.ID] = true
			}
		}
	}
	if n > h.maxXInSnap {
		h.maxXInSnap = n
	}
	return n
}

// decFindNodes: 02 ‖ offset(4)=4 ‖ uint16 little-endian distances.
func decFindNodes(msg []byte) ([]int, bool) {
	if len(msg) < 5 || msg[0] != msgFindNodes || binary.LittleEndian.Uint32(msg[1:5]) != 4 || (len(msg)-5)%2 != 0 {
		return nil, false
	}
	var out []int
	for b := msg[5:]; len(b) > 0; b = b[2:] {
		out = append(out, int(binary.LittleEndian.Uint16(b)))
	}
	return out, true
}

// pongEcho answers a PING (00 ‖ enr_seq ‖ payload_type ‖ offset=14 ‖ payload) with a PONG
// of the same payload type carrying the same payload container (for the types R's
// ping uses, PING and PONG share the payload layout).
func pongEcho(seq uint64, msg []byte) []byte {
	if len(msg) < 15 || msg[0] != 0x00 || binary.LittleEndian.Uint32(msg[11:15]) != 14 {
		return nil
	}
	out := []byte{0x01}
	out = binary.LittleEndian.AppendUint64(out, seq)
	out = append(out, msg[9:11]...)
	out = binary.LittleEndian.AppendUint32(out, 14)
	return append(out, msg[15:]...)
}

func endpointOf(n *enode.Node) netip.AddrPort {
	return netip.AddrPortFrom(addrOfIP(n.IP()), uint16(n.UDP()))
}

func hsDeadAddr(kind string, rng *rand.Rand, pub *publicIPs) netip.Addr {
	switch kind {
	case "lan":
		return netip.AddrFrom4([4]byte{10, byte(200 + rng.Intn(50)), byte(rng.Intn(256)), byte(1 + rng.Intn(254))})
	case "loop":
		return netip.AddrFrom4([4]byte{127, byte(200 + rng.Intn(50)), byte(rng.Intn(256)), byte(1 + rng.Intn(254))})
	}
	return pub.next()
}

// handler of a listing peer B.
func (h *hsWorld) peerHandler(bi int) func(*enode.Node, *net.UDPAddr, []byte) []byte {
	p := h.peers[bi]
	rid := h.R.ID()
	return func(from *enode.Node, _ *net.UDPAddr, msg []byte) []byte {
		if len(msg) > 0 && msg[0] == 0x00 {
			return pongEcho(p.adv.Self().Seq(), msg)
		}
		ds, ok := decFindNodes(msg)
		if !ok || from.ID() != rid {
			return nil
		}
		asked := map[int]bool{}
		var items [][]byte
		var ids []enode.ID
		add := func(n *enode.Node) {
			raw := recBytes(n)
			if nodesBodyLen(append(items, raw))+talkRespMaxFrame > maxDatagram {
				return
			}
			items = append(items, raw)
			ids = append(ids, n.ID())
		}
		// peers that exist and answer, when they lie at a requested distance
		for _, d := range ds {
			asked[d] = true
		}
		for _, y := range h.live {
			if asked[refLogDist(p.adv.ID(), y.ID())] {
				add(y.Self())
			}
		}
		seen := map[int]bool{}
		for _, d := range ds {
			if seen[d] {
				continue
			}
			seen[d] = true
			for _, x := range p.byDist[d] {
				add(x)
			}
		}
		p.mu.Lock()
		p.asked++
		p.dists = append(p.dists, ds)
		for _, id := range ids {
			p.served[id] = true
		}
		p.mu.Unlock()
		return encNodes(1, items)
	}
}

// handler of a peer Y that exists: empty NODES for FINDNODES, PONG for PING.
func liveHandler(y *pnode.Adversary) func(*enode.Node, *net.UDPAddr, []byte) []byte {
	return func(_ *enode.Node, _ *net.UDPAddr, msg []byte) []byte {
		if len(msg) > 0 && msg[0] == 0x00 {
			return pongEcho(y.Self().Seq(), msg)
		}
		if _, ok := decFindNodes(msg); ok {
			return encNodes(1, nil)
		}
		return nil
	}
}

func (h *hsWorld) allPeersAsked() bool {
	for _, p := range h.peers {
		p.mu.Lock()
		a := p.asked
		p.mu.Unlock()
		if a == 0 {
			return false
		}
	}
	return true
}

// xDistances: log-distances from R at which dead records sit, farthest first.
func (h *hsWorld) xDistances() []uint16 {
	set := map[int]bool{}
	for _, o := range h.origin {
		if o.kind == "X" {
			set[o.ldR] = true
		}
	}
	var ds []int
	for d := range set {
		ds = append(ds, d)
	}
	sort.Sort(sort.Reverse(sort.IntSlice(ds)))
	out := make([]uint16, len(ds))
	for i, d := range ds {
		out[i] = uint16(d)
	}
	return out
}

func (h *hsWorld) genDist(rng *rand.Rand, k int) distCase {
	xs := h.xDistances()
	if len(xs) == 0 {
		xs = []uint16{256}
	}
	switch k % 6 {
	case 0:
		return distCase{"hearsay-x-distances", xs}
	case 1:
		return distCase{"hearsay-256", []uint16{256}}
	case 2:
		return distCase{"hearsay-lookup-triple", []uint16{255, 256, 254}}
	case 3:
		var o []uint16
		for d := 256; d >= 240; d-- {
			o = append(o, uint16(d))
		}
		return distCase{"hearsay-all-buckets", o}
	case 4:
		return distCase{"hearsay-zero+x-distances", append([]uint16{0}, xs...)}
	}
	return distCase{"hearsay-one-x-distance", []uint16{xs[rng.Intn(len(xs))]}}
}

// judgeHearsay applies the ground-truth oracle to one exchange (the general
// responder oracle has judged it already).
func (h *hsWorld) judgeHearsay(o *respObs, phase string) {
	r := h.r
	r.Count("hearsay_requests", 1)
	if o.talkErr != nil || len(o.reply) == 0 {
		r.Count("hearsay_requests_unanswered", 1)
		return
	}
	_, items, err := decNodes(o.reply)
	if err != nil {
		return
	}
	r.Count("hearsay_requests_judged", 1)
	selfID := h.R.ID()
	offered := map[enode.ID]bool{}
	bm, am := snapMap(o.before), snapMap(o.after)
	for i, it := range items {
		var rec enr.Record
		if rlp.DecodeBytes(it, &rec) != nil {
			continue
		}
		n, err := enode.New(enode.ValidSchemesForTesting, &rec)
		if err != nil || n.ID() == selfID {
			continue
		}
		id := n.ID()
		if offered[id] {
			continue
		}
		offered[id] = true
		ep := endpointOf(n)
		org := h.origin[id]
		kind := "unknown"
		if org != nil {
			kind = org.kind
		}
		heard := h.heardFrom(ep)
		switch {
		case h.monitorLive[id]:
			r.Count("hearsay_offered_inserted_as_checked_by_monitor", 1)
		case heard > 0:
			r.Count("hearsay_offered_after_datagrams_from_that_node", 1)
			switch kind {
			case "Y":
				r.Count("hearsay_offered_learned_by_hearsay_then_answered", 1)
			case "Z":
				r.Count("hearsay_offered_contacted_by_R_and_answered", 1)
			}
		default:
			h.hmu.Lock()
			h.xOffered[id] = true
			h.hmu.Unlock()
			extra := map[string]any{
				"record_hex": lib.Hex(it), "record_id": id.String(), "record_endpoint": ep.String(), "record_kind": kind,
				"datagrams_from_record_endpoint_to_R": heard, "phase": phase, "lookup_target": h.target.String(),
				"hearsay_variant": h.variant.name, "R_id": selfID.String(),
			}
			if e, ok := bm[id]; ok {
				extra["table_live_flag_before"] = e.live
			}
			if e, ok := am[id]; ok {
				extra["table_live_flag_after"] = e.live
			}
			how := "R never received a datagram from that endpoint and the monitor did not insert it as checked"
			if org != nil && org.kind == "X" {
				b := h.peers[org.via]
				b.mu.Lock()
				extra["listed_by"] = map[string]any{"peer": org.via, "peer_id": b.adv.ID().String(), "peer_addr": b.adv.Conn.AddrPort().String(),
					"log_distance_from_peer": org.dB, "distances_R_requested": b.dists}
				b.mu.Unlock()
				extra["log_distance_from_R"] = org.ldR
				how = fmt.Sprintf("R only saw it listed in the NODES reply of peer #%d (%s) to its lookup; nobody listens at %s and no datagram from there was ever addressed to R",
					org.via, b.adv.Conn.AddrPort(), ep)
			}
			report(r, sigNeverContacted,
				fmt.Sprintf("record #%d (id %s, %s) offered to %s asker %v: %s", i, id.TerminalString(), ep, refClassify(o.askerIP), o.askerIP, how),
				o.witness(extra))
		}
	}
	// dead records R holds as entries of buckets this request covers, relayable to this asker
	covered := map[int]bool{}
	for _, d := range o.dc.wire {
		if d >= 1 && d <= 256 {
			covered[refBucketOf(int(d))] = true
		}
	}
	inTable, withheld := 0, 0
	for id, e := range bm {
		org := h.origin[id]
		if org == nil || org.kind != "X" || e.replacement {
			continue
		}
		a, ok := am[id]
		if !ok || a.replacement {
			continue
		}
		inTable++
		if !covered[refBucketOf(org.ldR)] || refRelay(o.askerIP, org.ep.Addr()) != relayYes {
			continue
		}
		if !offered[id] {
			withheld++
		}
	}
	r.Count("hearsay_dead_records_in_covered_bucket_relayable_withheld", withheld)
	r.Max("hearsay_max_dead_records_in_table_at_a_request", inTable)
	if inTable > 0 {
		r.Count("hearsay_requests_with_dead_records_in_table", 1)
	}
	if withheld > 0 {
		r.Count("hearsay_requests_with_withheld_dead_records", 1)
		r.Distinct(fmt.Sprintf("hearsay|%s|%s|%s|%s", h.variant.name, o.askerCls, o.dc.class, phase))
		noteClass("hearsay_distinct_variant_x_asker_x_distance_x_phase_classes", fmt.Sprintf("%s|%s|%s|%s", h.variant.name, o.askerCls, o.dc.class, phase))
	}
}

// runHearsayWorld executes one hearsay world; returns the number of requests executed.
func runHearsayWorld(r *lib.Run, idx, rounds int) (done int, err error) {
	rng := r.RNG("hearsay-world", idx)
	v := hsVariants[idx%len(hsVariants)]
	// witness index 9000+3·idx: never selected by the sampling rule of the general responder oracle
	w := &respWorld{r: r, idx: 9000 + 3*idx, hub: pnode.NewHub(), dgs: map[netip.AddrPort][]int{}, rClass: v.rClass, fill: "hearsay", selfIP: v.rAddr.Addr()}
	h := &hsWorld{respWorld: w, real: idx, variant: v, origin: map[enode.ID]*hsOrigin{}, monitorLive: map[enode.ID]bool{},
		heard: map[netip.AddrPort]int{}, xEntry: map[enode.ID]bool{}, xLiveFlag: map[enode.ID]bool{}, yEntry: map[enode.ID]bool{}, xOffered: map[enode.ID]bool{}}
	R, err := w.hub.StartNode(pnode.NodeOpts{Key: pnode.NewKey(rng), Addr: v.rAddr, RespTimeout: 300 * time.Millisecond})
	if err != nil {
		return 0, fmt.Errorf("start R: %w", err)
	}
	w.R = R
	defer R.Stop()
	w.hub.SetTap(h.tapAll)
	proto := string(portalwire.History)
	rid := R.ID()

	var advs []*pnode.Adversary
	defer func() {
		for _, a := range advs {
			a.Stop()
		}
	}()
	start := func(addr netip.AddrPort) (*pnode.Adversary, error) {
		a, err := w.hub.StartAdversary(pnode.AdvOpts{Key: pnode.NewKey(rng), Addr: addr, RespTimeout: 300 * time.Millisecond})
		if err == nil {
			advs = append(advs, a)
		}
		return a, err
	}
	// peers that exist
	for i := 0; i < hsLivePeers; i++ {
		y, err := start(v.yAddr(i))
		if err != nil {
			return 0, fmt.Errorf("start Y: %w", err)
		}
		y.OnTalk(proto, liveHandler(y))
		h.live = append(h.live, y)
		h.origin[y.ID()] = &hsOrigin{kind: "Y", ldR: refLogDist(rid, y.ID()), ep: v.yAddr(i), node: y.Self()}
	}
	z, err := start(v.yAddr(hsLivePeers))
	if err != nil {
		return 0, fmt.Errorf("start Z: %w", err)
	}
	z.OnTalk(proto, liveHandler(z))
	h.origin[z.ID()] = &hsOrigin{kind: "Z", ldR: refLogDist(rid, z.ID()), ep: v.yAddr(hsLivePeers), node: z.Self()}
	// listing peers and their dead records
	pub := &publicIPs{n: 20000 + idx*64}
	xn := 0
	for i := 0; i < hsPeers; i++ {
		b, err := start(v.bAddr(i))
		if err != nil {
			return 0, fmt.Errorf("start B: %w", err)
		}
		p := &hsPeer{adv: b, byDist: map[int][]*enode.Node{}, served: map[enode.ID]bool{}}
		pool := newKeyPool(b.ID())
		pool.grind(rng, map[int]int{256: hsPerDistance, 255: hsPerDistance, 254: hsPerDistance, 253: hsPerDistance})
		for _, d := range []int{256, 255, 254, 253} {
			for _, k := range pool.by[d][:hsPerDistance] {
				x := hsDeadRecord(k, v.xKinds[xn%len(v.xKinds)], rng, pub)
				xn++
				if _, dup := h.origin[x.ID()]; dup || x.ID() == rid {
					continue
				}
				p.byDist[d] = append(p.byDist[d], x)
				h.origin[x.ID()] = &hsOrigin{kind: "X", via: i, dB: d, ldR: refLogDist(rid, x.ID()), ep: endpointOf(x), node: x}
			}
		}
		h.peers = append(h.peers, p)
		h.origin[b.ID()] = &hsOrigin{kind: "B", ldR: refLogDist(rid, b.ID()), ep: v.bAddr(i), node: b.Self()}
	}
	for i := range h.peers {
		h.peers[i].adv.OnTalk(proto, h.peerHandler(i))
	}
	// lookup target: every B is asked for distances the pools cover (log-distance target–B ≥ 254 ⇒ {253..256})
	for try := 0; ; try++ {
		rng.Read(h.target[:])
		ok := true
		for _, p := range h.peers {
			if refLogDist(h.target, p.adv.ID()) < 254 {
				ok = false
			}
		}
		if ok {
			break
		}
		if try > 10000 {
			return 0, fmt.Errorf("no lookup target found")
		}
	}
	// askers
	type asker struct {
		def askerDef
		adv *pnode.Adversary
		rng *rand.Rand
	}
	var askers []asker
	for ai, ad := range v.askers {
		a, err := start(ad.addr)
		if err != nil {
			return 0, fmt.Errorf("start asker: %w", err)
		}
		askers = append(askers, asker{ad, a, r.RNG(fmt.Sprintf("hearsay-asker-%d", idx), ai)})
		h.origin[a.ID()] = &hsOrigin{kind: "asker", ldR: refLogDist(rid, a.ID()), ep: ad.addr, node: a.Self()}
	}
	// B's enter the table as checked peers: real endpoints that answer
	tab := R.P.VerifTable()
	for _, p := range h.peers {
		if tab.VerifAddFound(p.adv.Self(), true) {
			r.Count("hearsay_listing_peers_in_table", 1)
		}
		h.monitorLive[p.adv.ID()] = true
	}

	var mu sync.Mutex
	round := func(k int, phase string) {
		var wg sync.WaitGroup
		for ai := range askers {
			wg.Add(1)
			go func(ai int) {
				defer wg.Done()
				a := askers[ai]
				dc := h.genDist(a.rng, k+ai+idx)
				o := &respObs{world: w, askerCls: a.def.class, askerIP: a.def.addr.Addr(), path: "net", dc: dc}
				for try := 0; try < 2; try++ {
					o.before = tab.VerifSnapshot(false)
					mark := w.tapMark(a.def.addr)
					o.reply, o.talkErr = a.adv.Talk(R.Self(), proto, encFindNodes(dc.wire))
					o.datagrams = w.tapSince(a.def.addr, mark)
					o.after = tab.VerifSnapshot(false)
					if o.talkErr == nil || maxOf(o.datagrams) > maxDatagram {
						break
					}
					r.Count("resp_talk_retries", 1)
				}
				h.noteSnap(o.before)
				h.noteSnap(o.after)
				o.judge()
				h.judgeHearsay(o, phase)
				mu.Lock()
				done++
				mu.Unlock()
			}(ai)
		}
		wg.Wait()
	}

	// round 0: before the lookup (the table holds the B's only)
	round(0, "before-lookup")
	// the askers entered the table through their inbound contact; taken out again so that the
	// lookup starts from the B's alone and asks every one of them in its first round
	for _, a := range askers {
		tab.VerifDelete(a.adv.Self())
	}
	lookupDone := make(chan int, 1)
	go func() { lookupDone <- len(R.P.Lookup(h.target)) }()
	results, finished := 0, false
	// scheduling only: wait until the B's were asked and dead records show up in the table
	deadline := time.Now().Add(3 * time.Second)
wait:
	for time.Now().Before(deadline) {
		if h.noteSnap(tab.VerifSnapshot(false)) > 0 && h.allPeersAsked() {
			break
		}
		select {
		case results = <-lookupDone:
			finished = true
			break wait
		case <-time.After(3 * time.Millisecond):
		}
	}
	// R contacts an existing peer nobody listed; its answer makes it a checked entry
	if _, err := R.P.VerifPing(z.Self()); err != nil {
		r.Count("hearsay_direct_ping_failed", 1)
	} else {
		r.Count("hearsay_direct_ping_answered", 1)
	}
	for k := 1; k < rounds-1; k++ {
		if k > 1 {
			time.Sleep(120 * time.Millisecond)
		}
		phase := "during-lookup"
		if !finished {
			select {
			case results = <-lookupDone:
				finished = true
			default:
			}
		}
		if finished {
			phase = "after-lookup"
		}
		round(k, phase)
	}
	if !finished {
		select {
		case results = <-lookupDone:
			finished = true
		case <-time.After(30 * time.Second):
			r.Inconclusive("hearsay world %d: lookup did not return within 30 s", idx)
		}
	}
	round(rounds-1, "after-lookup")
	h.noteSnap(tab.VerifSnapshot(false))

	// bookkeeping: was the scenario real?
	r.Count("hearsay_worlds", 1)
	r.Count("hearsay_lookup_result_nodes", results)
	servedX, servedY := map[enode.ID]bool{}, map[enode.ID]bool{}
	for _, p := range h.peers {
		p.mu.Lock()
		if p.asked > 0 {
			r.Count("hearsay_listing_peers_asked_by_lookup", 1)
		}
		for _, ds := range p.dists {
			for _, d := range ds {
				noteClass("hearsay_distinct_distances_requested_by_lookup", fmt.Sprint(d))
			}
		}
		for id := range p.served {
			if h.origin[id].kind == "X" {
				servedX[id] = true
			} else {
				servedY[id] = true
			}
		}
		p.mu.Unlock()
	}
	h.hmu.Lock()
	nx, nlive, ny, noff := len(h.xEntry), len(h.xLiveFlag), len(h.yEntry), len(h.xOffered)
	maxSnap := h.maxXInSnap
	h.hmu.Unlock()
	r.Count("hearsay_dead_records_listed_to_R", len(servedX))
	r.Count("hearsay_existing_peers_listed_to_R", len(servedY))
	r.Count("hearsay_dead_records_entered_table", nx)
	r.Count("hearsay_existing_peers_entered_table", ny)
	r.Count("hearsay_dead_records_with_table_live_flag", nlive) // information only: the oracle looks at replies
	r.Count("hearsay_dead_records_offered", noff)
	if nx > 0 {
		r.Count("hearsay_worlds_with_dead_records_in_table", 1)
	}
	for _, o := range h.origin {
		if o.kind == "X" && h.heardFrom(o.ep) > 0 {
			// cannot happen on the hub: nobody listens there
			r.Inconclusive("hearsay world %d: a datagram from dead endpoint %v was addressed to R", idx, o.ep)
		}
	}
	if takeSample("hearsay", 2) {
		var reqd [][]int
		for _, p := range h.peers {
			p.mu.Lock()
			reqd = append(reqd, p.dists...)
			p.mu.Unlock()
		}
		r.Sample(map[string]any{"side": "responder-hearsay", "variant": v.name, "responder": v.rClass, "lookup_target": lib.HexShort(h.target[:], 8),
			"distances_R_requested_from_listing_peers": reqd, "dead_records_listed": len(servedX), "dead_records_entered_table": nx,
			"max_dead_records_in_one_snapshot": maxSnap, "dead_records_offered": noff, "lookup_result_nodes": results, "requests": done})
	}
	return done, nil
}

func hsDeadRecord(k *ecdsa.PrivateKey, kind string, rng *rand.Rand, pub *publicIPs) *enode.Node {
	return pnode.SignedNode(k, hsDeadAddr(kind, rng, pub), 1025+rng.Intn(60000), uint64(1+rng.Intn(50)))
}
