// C11 — FINDNODES replies and their acceptance obey distance, size and relay rules.
//
// Monitor: real shisui nodes run on the in-memory hub.
//
//   - Responder side: node R (public / LAN / loopback address) with a table filled
//     through the table's own add path (maximum-size and graded-size records, live and
//     never-checked entries, public / LAN / loopback / special-purpose addresses)
//     answers raw FINDNODES sent by scripted discv5 peers on loopback, LAN and public
//     addresses (and, through the talk-handler entry point, by peers with IPv6 and
//     IPv4-mapped addresses). The raw NODES reply is decoded by the harness and judged
//     against table snapshots taken around the request, a re-implementation of the
//     relay rule, and the size of the datagram seen by the hub.
//   - Asking side: node A sends FINDNODES to scripted responders which answer with
//     crafted NODES replies; the node list A's find-nodes call returns is judged
//     element by element against the statement's acceptance rules.
//   - Hearsay group (hearsay.go): R learns records through its own lookup from
//     scripted peers that list validly signed records of nodes that do not exist;
//     replies are judged against the monitor's own record of who R ever heard from,
//     not against the table's live flag.
package main

import (
	"net"
	"net/netip"
	"sync"

	"github.com/ethereum/go-ethereum/p2p/netutil"
	"verifharness/lib"
	"verifharness/pnode"
)

func main() { lib.Main("C11", "exploration", run) }

var (
	sigMu   sync.Mutex
	sigSeen = map[string]int{}
)

var sampleN = map[string]int{}

var classSets = map[string]map[string]bool{}

func noteClass(counter, key string) {
	sigMu.Lock()
	if classSets[counter] == nil {
		classSets[counter] = map[string]bool{}
	}
	classSets[counter][key] = true
	sigMu.Unlock()
}

func takeSample(side string, max int) bool {
	sigMu.Lock()
	defer sigMu.Unlock()
	if sampleN[side] >= max {
		return false
	}
	sampleN[side]++
	return true
}

// report forwards at most two witnesses per signature (the run keeps counting the rest).
func report(r *lib.Run, sig, what string, witness any) {
	sigMu.Lock()
	sigSeen[sig]++
	n := sigSeen[sig]
	sigMu.Unlock()
	r.Count("violations_"+sig, 1)
	if n <= 2 {
		r.Violation(sig, what, witness)
	}
}

// relaySelfTest compares the reference relay rule with go-ethereum's on the
// address palette the generators draw from. A disagreement means the harness
// (or the dependency) does not implement the rule text; nothing can be judged.
func relaySelfTest(r *lib.Run) bool {
	rng := r.RNG("selftest", 0)
	var pal []netip.Addr
	pub := &publicIPs{}
	for i := 0; i < 400; i++ {
		pal = append(pal, pub.next(), lanIP(rng), loopIP(rng))
	}
	pal = append(pal, specialIPs...)
	for _, a := range v6 {
		pal = append(pal, a)
	}
	for _, s := range []string{"0.0.0.0", "::", "224.0.0.251", "239.1.1.1", "ff02::1", "8.8.4.4", "1.2.3.4", "::ffff:10.0.0.7", "::ffff:44.3.2.1"} {
		pal = append(pal, netip.MustParseAddr(s))
	}
	for _, d := range netAskers {
		pal = append(pal, d.addr.Addr())
	}
	for _, d := range netResponders {
		pal = append(pal, d.addr.Addr())
	}
	for _, d := range directAskers {
		pal = append(pal, addrOfIP(d.ip))
	}
	for _, d := range directResponders {
		pal = append(pal, netip.MustParseAddr(d.ip))
	}
	for _, d := range rClasses {
		pal = append(pal, d.addr.Addr())
	}
	for _, v := range hsVariants {
		pal = append(pal, v.rAddr.Addr(), v.bAddr(0).Addr(), v.yAddr(0).Addr())
		for _, d := range v.askers {
			pal = append(pal, d.addr.Addr())
		}
		for _, k := range v.xKinds {
			pal = append(pal, hsDeadAddr(k, rng, pub))
		}
	}
	toIP := func(a netip.Addr) net.IP { return net.IP(a.AsSlice()) }
	bad := 0
	for _, peer := range pal {
		if c := refClassify(peer); c == ipAmbiguous {
			r.Inconclusive("self-test: generator address %v is in an ambiguous range", peer)
			bad++
		}
		for _, rec := range pal {
			ref := refRelay(peer, rec)
			lib := netutil.CheckRelayIP(toIP(peer), toIP(rec)) == nil
			if ref == relayDontCare || (ref == relayYes) != lib {
				bad++
				if bad < 5 {
					r.Inconclusive("self-test: relay rule disagreement peer=%v record=%v reference=%v library-accepts=%v", peer, rec, ref, lib)
				}
			}
		}
	}
	r.Count("selftest_relay_pairs", len(pal)*len(pal))
	// records without an address
	if refRelay(netip.MustParseAddr("8.8.8.8"), netip.Addr{}) != relayNo || netutil.CheckRelayIP(net.IP{8, 8, 8, 8}, nil) == nil {
		bad++
	}
	return bad == 0
}

func run(r *lib.Run) {
	pnode.Quiet()
	r.SetRule("responder case = (R address class, table filling class, asker address, FINDNODES distance list) answered by the real handler over the in-memory hub (or the talk-handler entry point for IPv6 / mapped askers); " +
		"asker case = (responder address class, requested distances, crafted NODES reply: mix of valid / wrong-distance / bad-signature / null-scheme / repeated / low-port / no-ip / unrelayable / garbage items) processed by the real find-nodes call. " +
		"distinct = (R class, fill class, asker class, distance class, reply-size class) on the responder side and (responder class, distance class, item kind, outcome) on the asking side; " +
		"only exchanges whose reply was decoded and compared with the oracle are counted. " +
		"hearsay case = (address plan, lookup target, asker address, FINDNODES distance list, phase before / during / after R's own lookup) in a world where R's real lookup is answered by scripted table peers listing signed records of nodes that do not exist (plus peers that do); " +
		"distinct = (address plan, asker class, distance class, phase), counted only when R held such a record in a covered bucket, relayable to the asker, and withheld it")
	r.Assume("go-ethereum's enode.New(enode.ValidSchemes, …) decides 'validly signed'; rlp and enr decoding of go-ethereum are trusted")
	r.Assume("a discv5 ordinary message packet carrying TALKRESP adds at most 103 bytes (16 IV + 23 static header + 32 source id + 1 type + 3 list + 9 request id + 3 string + 16 tag); on the hub path the real datagram length is measured instead")
	r.Assume("table snapshots taken right before and right after a request bracket the table state the handler saw (only revalidation and the inbound add of the asker change the table meanwhile)")
	r.Assume("'buckets that cover the requested distances': 17 buckets, bucket k>0 covers log-distance 240+k, bucket 0 covers 1..240 (cross-checked against the table's own placement of ids at every distance)")

	r.Assume("hearsay group: the hub's tap sees every datagram; a node from whose endpoint no datagram was ever addressed to R cannot have answered R, so it cannot have passed a liveness check (the monitor inserting a real, answering peer as checked counts as a check)")

	if !relaySelfTest(r) {
		r.FloorMiss("reference relay rule and netutil.CheckRelayIP disagree on the generator's address palette")
		return
	}

	respWorlds := r.Pick(28, 336)
	respPerAsker := r.Pick(12, 20)
	respDirect := r.Pick(40, 80)
	askWorlds := r.Pick(16, 240)
	askPerResp := r.Pick(20, 30)
	askDirect := r.Pick(100, 200)
	hsWorlds := r.Pick(16, 240)
	hsRounds := r.Pick(6, 8)

	// geometry self-test against a real table
	{
		hub := pnode.NewHub()
		n, err := hub.StartNode(pnode.NodeOpts{Key: pnode.NewKey(r.RNG("selftest-node", 0)), Addr: pnode.Addr4(10, 0, 0, 1, 9000)})
		if err != nil {
			r.FloorMiss("cannot start a node: %v", err)
			return
		}
		bad := bucketSelfTest(n.P.VerifTable(), n.ID(), r.RNG("selftest-geom", 0))
		n.Stop()
		if len(bad) > 0 {
			r.FloorMiss("reference bucket geometry disagrees with the table's placement: %v", bad)
			return
		}
	}

	type job struct {
		kind string
		idx  int
	}
	var mu sync.Mutex
	var jobs []job
	for i := 0; i < respWorlds || i < askWorlds; i++ {
		if i < respWorlds {
			jobs = append(jobs, job{"resp", i})
		}
		if i < askWorlds {
			jobs = append(jobs, job{"ask", i})
		}
	}
	// hearsay worlds mostly wait for R's lookup to time out on dead endpoints: own pool, run alongside
	var doneHs int
	var hsWg sync.WaitGroup
	hsSem := make(chan struct{}, 8)
	hsWg.Add(1)
	go func() {
		defer hsWg.Done()
		for i := 0; i < hsWorlds; i++ {
			hsWg.Add(1)
			hsSem <- struct{}{}
			go func(i int) {
				defer hsWg.Done()
				defer func() { <-hsSem }()
				n, err := runHearsayWorld(r, i, hsRounds)
				if err != nil {
					r.FloorMiss("hearsay world %d: %v", i, err)
				}
				mu.Lock()
				doneHs += n
				mu.Unlock()
			}(i)
		}
	}()
	// moved-endpoint worlds wait for R's own revalidation timers: all of them at once, alongside
	mvWorlds := r.Pick(6, 36)
	for i := 0; i < mvWorlds; i++ {
		hsWg.Add(1)
		go func(i int) { defer hsWg.Done(); runMovedWorld(r, i) }(i)
	}
	for i := 0; i < r.Pick(4, 24); i++ {
		hsWg.Add(1)
		go func(i int) { defer hsWg.Done(); runMovedDuringCheckWorld(r, i) }(i)
	}
	for i := 0; i < r.Pick(6, 36); i++ {
		hsWg.Add(1)
		go func(i int) { defer hsWg.Done(); runSeedWorld(r, i) }(i)
	}
	wantResp := respWorlds * (len(netAskers)*respPerAsker + respDirect)
	wantAsk := askWorlds * (len(netResponders)*askPerResp + askDirect)
	var doneResp, doneAsk int
	sem := make(chan struct{}, 6)
	var wg sync.WaitGroup
	for _, j := range jobs {
		wg.Add(1)
		sem <- struct{}{}
		go func(j job) {
			defer wg.Done()
			defer func() { <-sem }()
			var n int
			var err error
			if j.kind == "resp" {
				n, err = runRespWorld(r, j.idx, respPerAsker, respDirect)
			} else {
				n, err = runAskWorld(r, j.idx, askPerResp, askDirect)
			}
			if err != nil {
				r.FloorMiss("%s world %d: %v", j.kind, j.idx, err)
			}
			mu.Lock()
			if j.kind == "resp" {
				doneResp += n
			} else {
				doneAsk += n
			}
			mu.Unlock()
		}(j)
	}
	wg.Wait()
	hsWg.Wait()
	if doneResp != wantResp || doneAsk != wantAsk {
		r.FloorMiss("executed %d/%d responder requests and %d/%d asker replies", doneResp, wantResp, doneAsk, wantAsk)
	}
	r.Count("moved_worlds", mvWorlds)
	if r.Counter("moved_worlds_new_record_installed") == 0 {
		r.Inconclusive("moved-endpoint group: in none of %d worlds did R's revalidation install the peer's new record within the scheduling window", mvWorlds)
	}
	if want := hsWorlds * hsRounds * len(hsVariants[0].askers); doneHs != want {
		r.FloorMiss("executed %d/%d hearsay requests", doneHs, want)
	}
	sigMu.Lock()
	for name, set := range classSets {
		r.Count(name, len(set))
	}
	sigMu.Unlock()
	r.Count("resp_worlds", respWorlds)
	r.Count("ask_worlds", askWorlds)
	if r.Counter("resp_replies_within_16B_of_1280") == 0 {
		r.Warn("no reply came within 16 bytes of the 1280-byte packet limit")
	}
	if r.Counter("resp_records_checked") < 200 {
		r.Warn("few records were offered by the responder (%d)", r.Counter("resp_records_checked"))
	}
	if r.Counter("ask_records_used_ok") < 100 {
		r.Warn("few crafted records were accepted by the asker (%d)", r.Counter("ask_records_used_ok"))
	}
	if r.Counter("hearsay_dead_records_entered_table") == 0 {
		r.Warn("hearsay group vacuous: none of the %d dead records listed to R entered its table", r.Counter("hearsay_dead_records_listed_to_R"))
	} else if n := r.Counter("hearsay_worlds_with_dead_records_in_table"); n < int64(hsWorlds)*3/4 {
		r.Warn("hearsay group: dead records entered R's table in only %d of %d worlds", n, hsWorlds)
	}
	if r.Counter("hearsay_requests_with_withheld_dead_records") == 0 {
		r.Warn("hearsay group: no request found a dead record in a covered bucket of R's table")
	}
	if r.Counter("hearsay_offered_contacted_by_R_and_answered") == 0 {
		r.Warn("hearsay group: the peer R pinged itself was never offered (the oracle's 'R heard from it' branch was not exercised)")
	}
	if n := r.Counter("resp_talk_errors"); n > int64(wantResp/20) {
		r.Warn("%d talk requests failed", n)
	}
}
