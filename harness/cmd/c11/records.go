package main

import (
	"crypto/ecdsa"
	"math/rand"
	"net/netip"

	"github.com/ethereum/go-ethereum/p2p/enode"
	"github.com/ethereum/go-ethereum/p2p/enr"
	"github.com/ethereum/go-ethereum/rlp"
	"verifharness/pnode"
)

func recBytes(n *enode.Node) []byte {
	b, err := rlp.EncodeToBytes(n.Record())
	if err != nil {
		panic(err)
	}
	return b
}

func idOfKey(k *ecdsa.PrivateKey) enode.ID { return enode.PubkeyToIDV4(&k.PublicKey) }

type recSpec struct {
	ip   netip.Addr // "ip" entry (v4) or "ip6" entry (v6); invalid = none
	ip6  netip.Addr // additional "ip6" entry
	udp  int        // 0 = no "udp" entry
	udp6 int
	seq  uint64
	pad  int // length of the "pad" entry value; < 0 = no entry
}

func (s recSpec) record() *enr.Record {
	var r enr.Record
	if s.ip.IsValid() {
		if s.ip.Is4() {
			r.Set(enr.IPv4Addr(s.ip))
		} else {
			r.Set(enr.IPv6Addr(s.ip))
		}
	}
	if s.ip6.IsValid() {
		r.Set(enr.IPv6Addr(s.ip6))
	}
	if s.udp != 0 {
		r.Set(enr.UDP(s.udp))
	}
	if s.udp6 != 0 {
		r.Set(enr.UDP6(s.udp6))
	}
	if s.pad >= 0 {
		p := make([]byte, s.pad)
		for i := range p {
			p[i] = 0xa5
		}
		r.Set(enr.WithEntry("pad", p))
	}
	seq := s.seq
	if seq == 0 {
		seq = 1
	}
	r.SetSeq(seq)
	return &r
}

// signer turns a record into a node under some identity scheme; ok=false when
// the record cannot be signed (too big).
type signer func(r *enr.Record) (*enode.Node, bool)

func v4Signer(k *ecdsa.PrivateKey) signer {
	return func(r *enr.Record) (*enode.Node, bool) {
		if err := enode.SignV4(r, k); err != nil {
			return nil, false
		}
		n, err := enode.New(enode.ValidSchemes, r)
		if err != nil {
			return nil, false
		}
		return n, true
	}
}

func nullSigner(id enode.ID) signer {
	return func(r *enr.Record) (n *enode.Node, ok bool) {
		defer func() {
			if recover() != nil { // SignNull panics when the record is too big
				n, ok = nil, false
			}
		}()
		return enode.SignNull(r, id), true
	}
}

// sized builds a record whose RLP encoding is exactly target bytes long when
// that is reachable by varying the padding entry, else the largest size below
// target. target <= 0: no padding entry.
func sized(sign signer, s recSpec, target int) *enode.Node {
	s.pad = -1
	base, ok := sign(s.record())
	if !ok {
		panic("c11: cannot sign unpadded record")
	}
	if target <= 0 {
		return base
	}
	b0 := len(recBytes(base))
	if b0 >= target {
		return base
	}
	best := base
	// adding the entry costs 4 (key) + 1..3 (value header) + pad bytes (+ list header growth)
	guess := target - b0 - 8
	if guess < 0 {
		guess = 0
	}
	for pad := guess; pad <= guess+12; pad++ {
		s.pad = pad
		n, ok := sign(s.record())
		if !ok {
			break
		}
		l := len(recBytes(n))
		if l > target {
			break
		}
		best = n
		if l == target {
			break
		}
	}
	return best
}

// publicIPs hands out public unicast addresses, each in its own /24, avoiding
// every special-purpose, private and ambiguous range.
type publicIPs struct{ n int }

func (p *publicIPs) next() netip.Addr {
	firsts := []byte{11, 23, 45, 62, 77, 81, 93, 104, 128, 151, 185, 213}
	for {
		i := p.n
		p.n++
		a := netip.AddrFrom4([4]byte{firsts[i%len(firsts)], byte(1 + (i/len(firsts))%250), byte(1 + (i/(len(firsts)*250))%250), byte(2 + i%200)})
		if refClassify(a) == ipPublic {
			return a
		}
	}
}

func lanIP(rng *rand.Rand) netip.Addr {
	switch rng.Intn(4) {
	case 0:
		return netip.AddrFrom4([4]byte{10, byte(rng.Intn(256)), byte(rng.Intn(256)), byte(1 + rng.Intn(254))})
	case 1:
		return netip.AddrFrom4([4]byte{192, 168, byte(rng.Intn(256)), byte(1 + rng.Intn(254))})
	case 2:
		return netip.AddrFrom4([4]byte{172, byte(16 + rng.Intn(16)), byte(rng.Intn(256)), byte(1 + rng.Intn(254))})
	}
	return netip.AddrFrom4([4]byte{169, 254, byte(rng.Intn(256)), byte(1 + rng.Intn(254))})
}

func loopIP(rng *rand.Rand) netip.Addr {
	return netip.AddrFrom4([4]byte{127, byte(rng.Intn(256)), byte(rng.Intn(256)), byte(1 + rng.Intn(254))})
}

// special addresses that every reading of the rule refuses to relay
var specialIPs = []netip.Addr{
	netip.MustParseAddr("192.0.2.7"), netip.MustParseAddr("198.51.100.9"), netip.MustParseAddr("203.0.113.77"),
	netip.MustParseAddr("198.18.3.4"), netip.MustParseAddr("192.88.99.1"), netip.MustParseAddr("0.1.2.3"),
	netip.MustParseAddr("255.255.255.255"), netip.MustParseAddr("198.19.255.1"),
}

// keyPool grinds secp256k1 keys by log-distance from a base id.
type keyPool struct {
	base enode.ID
	by   map[int][]*ecdsa.PrivateKey
}

func newKeyPool(base enode.ID) *keyPool {
	return &keyPool{base: base, by: map[int][]*ecdsa.PrivateKey{}}
}

// grind generates keys until every wanted distance has at least want[d] keys
// (keys at other distances are kept too, at most 8 per distance).
func (p *keyPool) grind(rng *rand.Rand, want map[int]int) {
	missing := func() bool {
		for d, n := range want {
			if len(p.by[d]) < n {
				return true
			}
		}
		return false
	}
	for missing() {
		k := pnode.NewKey(rng)
		d := enode.LogDist(p.base, idOfKey(k))
		if w, ok := want[d]; ok {
			if len(p.by[d]) < w {
				p.by[d] = append(p.by[d], k)
			}
		} else if len(p.by[d]) < 8 {
			p.by[d] = append(p.by[d], k)
		}
	}
}
