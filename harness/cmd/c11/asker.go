package main

// Asking side: a real node A sends FINDNODES to scripted responders and the
// list it returns is judged against the reply the responder sent.

import (
	"crypto/ecdsa"
	"fmt"
	"math/rand"
	"net"
	"net/netip"
	"sync"
	"time"

	"github.com/ethereum/go-ethereum/p2p/enode"
	"github.com/ethereum/go-ethereum/p2p/enr"
	"github.com/ethereum/go-ethereum/rlp"
	"github.com/zen-eth/shisui/portalwire"
	"verifharness/lib"
	"verifharness/pnode"
)

var aAddrs = []netip.AddrPort{
	pnode.Addr4(34, 5, 6, 7, 9000), pnode.Addr4(10, 9, 8, 7, 9000), pnode.Addr4(127, 0, 0, 1, 9000), pnode.Addr4(192, 168, 3, 4, 9000),
}

var netResponders = []askerDef{
	{"S-public", pnode.Addr4(8, 8, 8, 8, 9201)},
	{"S-public", pnode.Addr4(93, 184, 216, 34, 9202)},
	{"S-lan10", pnode.Addr4(10, 77, 0, 5, 9203)},
	{"S-lan192", pnode.Addr4(192, 168, 9, 9, 9204)},
	{"S-loopback", pnode.Addr4(127, 0, 0, 9, 9205)},
	{"S-linklocal", pnode.Addr4(169, 254, 10, 10, 9206)},
}

var directResponders = []struct {
	class string
	ip    string
}{
	{"S-public", "5.6.7.8"}, {"S-lan10", "10.0.0.99"}, {"S-lan172", "172.20.1.1"}, {"S-loopback", "127.1.2.3"},
	{"S-special", "192.0.2.55"}, {"S-v6-loopback", "::1"}, {"S-v6-ula", "fd12::1"}, {"S-v6-linklocal", "fe80::77"},
	{"S-v6-public", "2a00:1450::8a"}, {"S-public", "201.7.7.7"},
}

type rItem struct {
	kind string
	raw  []byte
}

type responderCtx struct {
	class string
	self  *enode.Node
	id    enode.ID
	ip    netip.Addr
	pool  *keyPool
	far   []*ecdsa.PrivateKey // keys at log-distance <= 253
	pub   *publicIPs

	mu   sync.Mutex
	next []byte // reply to the next FINDNODES
	got  int
}

func newResponderCtx(class string, self *enode.Node, rng *rand.Rand, salt int) *responderCtx {
	c := &responderCtx{class: class, self: self, id: self.ID(), ip: addrOfIP(self.IP()), pool: newKeyPool(self.ID()), pub: &publicIPs{n: 5000 + salt*131}}
	c.pool.grind(rng, map[int]int{256: 5, 255: 5, 254: 4})
	for d, ks := range c.pool.by {
		if d <= 253 {
			c.far = append(c.far, ks...)
		}
	}
	for len(c.far) < 3 {
		k := pnode.NewKey(rng)
		if enode.LogDist(c.id, idOfKey(k)) <= 253 {
			c.far = append(c.far, k)
		}
	}
	return c
}

type askCase struct {
	distClass string
	dists     []uint
	nilDists  bool
	items     []rItem
}

var v6 = map[string]netip.Addr{
	"loop": netip.MustParseAddr("::1"), "linklocal": netip.MustParseAddr("fe80::abcd"), "ula": netip.MustParseAddr("fd00:1::2"),
	"doc": netip.MustParseAddr("2001:db8::1"), "public": netip.MustParseAddr("2606:4700:4700::1111"), "6to4": netip.MustParseAddr("2002:0808:0808::1"),
}

var itemKinds = []struct {
	kind   string
	weight int
}{
	{"valid", 30}, {"wrong-distance", 10}, {"badsig-signature", 5}, {"badsig-content", 4}, {"null-scheme", 5},
	{"repeat-same", 6}, {"repeat-newer-seq", 3}, {"port-absent", 3}, {"port-1", 2}, {"port-1023", 2}, {"port-1024", 6}, {"port-1025", 5},
	{"port-65535", 3}, {"no-ip", 4}, {"ip-loopback", 6}, {"ip-lan10", 5}, {"ip-lan192", 4}, {"ip-lan172", 2}, {"ip-linklocal", 2},
	{"ip-special", 5}, {"ip-multicast", 2}, {"ip-unspecified", 2}, {"ip6-loopback", 2}, {"ip6-linklocal", 2}, {"ip6-ula", 2},
	{"ip6-doc", 2}, {"ip6-public", 3}, {"ip4lan+ip6public", 2}, {"ip4public+ip6loop", 2}, {"garbage-random", 4}, {"garbage-empty", 2},
	{"truncated", 3}, {"trailing-byte", 2}, {"responder-self", 3}, {"asker-self", 2}, {"rlp-not-record", 2},
}

var kindTotal = func() int {
	t := 0
	for _, k := range itemKinds {
		t += k.weight
	}
	return t
}()

func pickKind(rng *rand.Rand) string {
	x := rng.Intn(kindTotal)
	for _, k := range itemKinds {
		if x < k.weight {
			return k.kind
		}
		x -= k.weight
	}
	return "valid"
}

func (c *responderCtx) genCase(rng *rand.Rand, k int, aSelf *enode.Node, maxBody int) askCase {
	var ac askCase
	switch k % 14 {
	case 0:
		ac.distClass, ac.dists = "256", []uint{256}
	case 1:
		ac.distClass, ac.dists = "255-256", []uint{255, 256}
	case 2:
		ac.distClass, ac.dists = "254-255-256", []uint{254, 255, 256}
	case 3:
		ac.distClass, ac.dists = "zero", []uint{0}
	case 4:
		ac.distClass, ac.dists = "zero-256", []uint{0, 256}
	case 5:
		ac.distClass, ac.dists = "empty", []uint{}
	case 6:
		ac.distClass, ac.dists, ac.nilDists = "nil", nil, true
	case 7:
		ac.distClass, ac.dists = "repeats", []uint{255, 255, 254, 255}
	case 8:
		ac.distClass, ac.dists = "with-invalid", []uint{257, 256, 1000, 65535}
	case 9:
		ac.distClass, ac.dists = "only-invalid", []uint{257, 300}
	case 10:
		ac.distClass = "long"
		for d := 256; d >= 254-rng.Intn(100); d-- {
			ac.dists = append(ac.dists, uint(d))
		}
	case 11:
		ac.distClass, ac.dists = "254", []uint{254}
	case 12:
		ac.distClass, ac.dists = "low-only", []uint{uint(1 + rng.Intn(240)), uint(200 + rng.Intn(50))}
	default:
		ac.distClass = "random"
		for i, n := 0, 1+rng.Intn(5); i < n; i++ {
			ac.dists = append(ac.dists, uint(250+rng.Intn(8)))
		}
	}
	asked := map[int]bool{}
	for _, d := range ac.dists {
		asked[int(d)] = true
	}
	var inKeys, outKeys []*ecdsa.PrivateKey
	for _, d := range []int{256, 255, 254} {
		if asked[d] {
			inKeys = append(inKeys, c.pool.by[d]...)
		} else {
			outKeys = append(outKeys, c.pool.by[d]...)
		}
	}
	for _, fk := range c.far {
		if asked[enode.LogDist(c.id, idOfKey(fk))] {
			inKeys = append(inKeys, fk)
		} else {
			outKeys = append(outKeys, fk)
		}
	}
	rng.Shuffle(len(inKeys), func(i, j int) { inKeys[i], inKeys[j] = inKeys[j], inKeys[i] })
	rng.Shuffle(len(outKeys), func(i, j int) { outKeys[i], outKeys[j] = outKeys[j], outKeys[i] })
	ni, no := 0, 0
	keyFor := func(wrong bool) *ecdsa.PrivateKey {
		if (wrong || len(inKeys) == 0) && len(outKeys) > 0 {
			no++
			return outKeys[(no-1)%len(outKeys)]
		}
		ni++
		return inKeys[(ni-1)%len(inKeys)]
	}

	n := 0
	switch x := rng.Intn(100); {
	case x < 4:
		n = 0
	case x < 80:
		n = 1 + rng.Intn(8)
	case x < 93:
		n = 9 + rng.Intn(24)
	default:
		n = 33 + rng.Intn(8)
	}
	type prev struct {
		key  *ecdsa.PrivateKey
		spec recSpec
		raw  []byte
	}
	var goods []prev
	for i := 0; i < n; i++ {
		kind := pickKind(rng)
		if n > 12 && rng.Intn(3) > 0 {
			kind = []string{"garbage-empty", "garbage-random", "rlp-not-record"}[rng.Intn(3)] // long lists must stay within one packet
		}
		spec := recSpec{ip: c.pub.next(), udp: []int{1025, 1026, 9000, 30303, 40000}[rng.Intn(5)], seq: uint64(1 + rng.Intn(50))}
		key := (*ecdsa.PrivateKey)(nil)
		var raw []byte
		build := func() {
			if key == nil {
				key = keyFor(kind == "wrong-distance")
			}
			nd, ok := v4Signer(key)(spec.record0())
			if !ok {
				panic("c11: sign failed")
			}
			raw = recBytes(nd)
		}
		switch kind {
		case "valid", "wrong-distance":
			build()
		case "badsig-signature":
			build()
			raw = append([]byte(nil), raw...)
			raw[4+rng.Intn(60)] ^= byte(1 << rng.Intn(8)) // inside the 64-byte signature string
		case "badsig-content":
			build()
			raw = append([]byte(nil), raw...)
			raw[len(raw)-1] ^= 0x01 // low byte of the last value (udp port)
		case "null-scheme":
			id := c.id
			if len(inKeys) > 0 {
				id = idOfKey(keyFor(false))
			}
			nd, _ := nullSigner(id)(spec.record0())
			raw = recBytes(nd)
		case "repeat-same":
			if len(goods) > 0 {
				raw = goods[rng.Intn(len(goods))].raw
			} else {
				build()
			}
		case "repeat-newer-seq":
			if len(goods) > 0 {
				g := goods[rng.Intn(len(goods))]
				key, spec = g.key, g.spec
				spec.seq += uint64(1 + rng.Intn(3))
			}
			build()
		case "port-absent":
			spec.udp = 0
			build()
		case "port-1":
			spec.udp = 1
			build()
		case "port-1023":
			spec.udp = 1023
			build()
		case "port-1024":
			spec.udp = 1024
			build()
		case "port-1025":
			spec.udp = 1025
			build()
		case "port-65535":
			spec.udp = 65535
			build()
		case "no-ip":
			spec.ip = netip.Addr{}
			build()
		case "ip-loopback":
			spec.ip = loopIP(rng)
			build()
		case "ip-lan10":
			spec.ip = netip.AddrFrom4([4]byte{10, byte(rng.Intn(256)), byte(rng.Intn(256)), 7})
			build()
		case "ip-lan192":
			spec.ip = netip.AddrFrom4([4]byte{192, 168, byte(rng.Intn(256)), 7})
			build()
		case "ip-lan172":
			spec.ip = netip.AddrFrom4([4]byte{172, byte(16 + rng.Intn(16)), 3, 7})
			build()
		case "ip-linklocal":
			spec.ip = netip.AddrFrom4([4]byte{169, 254, byte(rng.Intn(256)), 7})
			build()
		case "ip-special":
			spec.ip = specialIPs[rng.Intn(len(specialIPs))]
			build()
		case "ip-multicast":
			spec.ip = netip.AddrFrom4([4]byte{byte(224 + rng.Intn(16)), 0, 0, 251})
			build()
		case "ip-unspecified":
			spec.ip = netip.AddrFrom4([4]byte{})
			build()
		case "ip6-loopback":
			spec.ip, spec.udp, spec.udp6 = v6["loop"], 0, 9000
			build()
		case "ip6-linklocal":
			spec.ip, spec.udp6 = v6["linklocal"], 9000
			build()
		case "ip6-ula":
			spec.ip, spec.udp6 = v6["ula"], 9000
			build()
		case "ip6-doc":
			spec.ip = v6[[]string{"doc", "6to4"}[rng.Intn(2)]]
			build()
		case "ip6-public":
			spec.ip = v6["public"]
			if rng.Intn(2) == 0 {
				spec.udp, spec.udp6 = 80, 9000 // the v6 endpoint uses udp6
			}
			build()
		case "ip4lan+ip6public":
			spec.ip, spec.ip6, spec.udp, spec.udp6 = lanIP(rng), v6["public"], []int{80, 9000}[rng.Intn(2)], []int{443, 9001}[rng.Intn(2)]
			build()
		case "ip4public+ip6loop":
			spec.ip6, spec.udp6 = v6["loop"], 9001
			build()
		case "garbage-random":
			raw = make([]byte, 1+rng.Intn(24))
			rng.Read(raw)
		case "garbage-empty":
			raw = []byte{}
		case "truncated":
			build()
			raw = raw[:len(raw)-1-rng.Intn(len(raw)-1)]
		case "trailing-byte":
			build()
			raw = append(append([]byte(nil), raw...), byte(rng.Intn(256)))
		case "responder-self":
			raw = recBytes(c.self)
		case "asker-self":
			raw = recBytes(aSelf)
		case "rlp-not-record":
			raw, _ = rlp.EncodeToBytes([]uint64{uint64(rng.Intn(1000)), 7, 9})
		}
		if key != nil && kind != "badsig-signature" && kind != "badsig-content" && kind != "truncated" && kind != "trailing-byte" {
			goods = append(goods, prev{key, spec, raw})
		}
		ac.items = append(ac.items, rItem{kind, raw})
	}
	if maxBody > 0 {
		raws := func() [][]byte {
			o := make([][]byte, len(ac.items))
			for i, it := range ac.items {
				o[i] = it.raw
			}
			return o
		}
		for len(ac.items) > 0 && nodesBodyLen(raws()) > maxBody {
			// drop the biggest item
			bi := 0
			for i, it := range ac.items {
				if len(it.raw) > len(ac.items[bi].raw) {
					bi = i
				}
			}
			ac.items = append(ac.items[:bi], ac.items[bi+1:]...)
		}
	}
	return ac
}

// record0 is record() without the padding entry.
func (s recSpec) record0() *enr.Record { s.pad = -1; return s.record() }

type itemVerdict struct {
	id      enode.ID
	hasID   bool
	reasons []string // empty: every rule of the statement is met
	ld      int
	port    int
	ip      netip.Addr
}

// refJudgeItem classifies one element of a NODES reply by the statement's rules.
func refJudgeItem(raw []byte, respID enode.ID, respIP netip.Addr, dists []uint) itemVerdict {
	var v itemVerdict
	var rec enr.Record
	if err := rlp.DecodeBytes(raw, &rec); err != nil {
		v.reasons = append(v.reasons, "undecodable")
		return v
	}
	n, err := enode.New(enode.ValidSchemes, &rec)
	if err != nil {
		v.reasons = append(v.reasons, "invalid-signature")
		// keep going on a best-effort basis for the witness text only
		if n2, err2 := enode.New(enode.ValidSchemesForTesting, &rec); err2 == nil {
			v.id, v.hasID = n2.ID(), true
		}
		return v
	}
	v.id, v.hasID = n.ID(), true
	v.ip, v.port = addrOfIP(n.IP()), n.UDP()
	v.ld = refLogDist(respID, n.ID())
	match := false
	for _, d := range dists {
		if int(d) == v.ld {
			match = true
		}
	}
	if !match {
		v.reasons = append(v.reasons, "unrequested-distance")
	}
	if v.port <= 1024 {
		v.reasons = append(v.reasons, "low-port")
	}
	if refRelay(respIP, v.ip) == relayNo {
		v.reasons = append(v.reasons, "unrelayable-address")
	}
	return v
}

type askObs struct {
	r      *lib.Run
	world  int
	path   string
	resp   *responderCtx
	ac     askCase
	result []*enode.Node
	err    error
}

func (o *askObs) witness(extra map[string]any) map[string]any {
	kinds := make([]string, len(o.ac.items))
	recs := make([]string, len(o.ac.items))
	for i, it := range o.ac.items {
		kinds[i] = it.kind
		recs[i] = lib.HexShort(it.raw, 320)
	}
	raws := make([][]byte, len(o.ac.items))
	for i, it := range o.ac.items {
		raws[i] = it.raw
	}
	w := map[string]any{
		"world": o.world, "path": o.path, "responder_class": o.resp.class, "responder_ip": o.resp.ip.String(), "responder_id": o.resp.id.String(),
		"responder_record_hex": lib.Hex(recBytes(o.resp.self)),
		"distances":            o.ac.dists, "distances_nil": o.ac.nilDists, "distance_class": o.ac.distClass,
		"reply_item_kinds": kinds, "reply_items_hex": recs, "returned": len(o.result),
	}
	if len(o.ac.items) <= 8 {
		w["reply_hex"] = lib.Hex(encNodes(1, raws))
	}
	for k, v := range extra {
		w[k] = v
	}
	return w
}

func (o *askObs) judge() {
	r := o.r
	r.Eval(1)
	r.Count("ask_replies_"+o.path, 1)
	if o.err != nil {
		r.Count("ask_reply_rejected_whole", 1)
		if len(o.ac.items) > 32 {
			r.Count("ask_reply_rejected_over_32_items", 1)
		}
	}
	verdicts := make([]itemVerdict, len(o.ac.items))
	byRaw := map[string]int{}
	for i, it := range o.ac.items {
		verdicts[i] = refJudgeItem(it.raw, o.resp.id, o.resp.ip, o.ac.dists)
		if _, ok := byRaw[string(it.raw)]; !ok {
			byRaw[string(it.raw)] = i
		}
	}
	if o.ac.nilDists {
		// no distance was requested, so no record lies at a requested distance; reported once per reply
		// under its own signature, and the remaining rules are judged on their own below
		if len(o.result) > 0 {
			report(r, "asker:used-unrequested-distance:nil-distance-list",
				fmt.Sprintf("find-nodes called with a nil distance list (nothing requested) returned %d of the %d records of the reply", len(o.result), len(o.ac.items)),
				o.witness(nil))
		}
		for i := range verdicts {
			var rs []string
			for _, x := range verdicts[i].reasons {
				if x != "unrequested-distance" {
					rs = append(rs, x)
				}
			}
			verdicts[i].reasons = rs
		}
	}
	used := map[string]int{}
	usedID := map[enode.ID]int{}
	for _, n := range o.result {
		raw := recBytes(n)
		used[string(raw)]++
		usedID[n.ID()]++
		i, ok := byRaw[string(raw)]
		if !ok {
			report(r, "asker:used-record-not-in-reply", fmt.Sprintf("find-nodes returned node %s whose record the responder never sent", n.ID().TerminalString()),
				o.witness(map[string]any{"returned_record_hex": lib.Hex(raw)}))
			continue
		}
		v := verdicts[i]
		if len(v.reasons) > 0 {
			sig := "asker:used-" + v.reasons[0]
			report(r, sig, fmt.Sprintf("find-nodes used reply item #%d (kind %s) although: %v (log-distance from responder %d, udp %d, address %v, responder address %v)",
				i, o.ac.items[i].kind, v.reasons, v.ld, v.port, v.ip, o.resp.ip),
				o.witness(map[string]any{"item": i, "item_hex": lib.Hex(raw), "reasons": v.reasons}))
		} else {
			r.Count("ask_records_used_ok", 1)
			r.Distinct(fmt.Sprintf("ask|%s|%s|%s|used", o.resp.class, o.ac.distClass, o.ac.items[i].kind))
		}
		if used[string(raw)] == 2 {
			report(r, "asker:used-repeat", fmt.Sprintf("find-nodes returned the record of reply item #%d twice", i),
				o.witness(map[string]any{"item": i, "item_hex": lib.Hex(raw)}))
		} else if usedID[n.ID()] == 2 && used[string(raw)] == 1 {
			r.Count("ask_same_id_two_records_used", 1) // statement speaks of repeats of a record; only counted
		}
	}
	r.Max("ask_max_nodes_returned", len(o.result))
	noteClass("ask_distinct_responder_x_distance_classes", o.resp.class+"|"+o.ac.distClass)
	// bookkeeping of what was dropped, and why (first failing rule in statement order)
	firstOK := map[enode.ID]bool{}
	for i, it := range o.ac.items {
		v := verdicts[i]
		if used[string(it.raw)] > 0 && byRaw[string(it.raw)] == i {
			if len(v.reasons) == 0 {
				firstOK[v.id] = true
			}
			continue
		}
		switch {
		case len(v.reasons) > 0:
			r.Count("ask_rejected_"+v.reasons[0], 1)
			r.Distinct(fmt.Sprintf("ask|%s|%s|%s|%s", o.resp.class, o.ac.distClass, it.kind, v.reasons[0]))
		case byRaw[string(it.raw)] != i:
			r.Count("ask_rejected_repeat-identical", 1)
			r.Distinct(fmt.Sprintf("ask|%s|%s|%s|repeat", o.resp.class, o.ac.distClass, it.kind))
		case firstOK[v.id]:
			r.Count("ask_rejected_repeat-same-id", 1)
		case o.err != nil:
			r.Count("ask_valid_records_lost_with_rejected_reply", 1)
		default:
			firstOK[v.id] = true
			r.Count("ask_valid_records_dropped", 1)
		}
	}
	if len(o.result) >= 2 && len(o.ac.items) >= 5 && len(o.ac.items) <= 12 && o.world%2 == 1 && takeSample("ask", 3) {
		kinds := make([]string, len(o.ac.items))
		for i, it := range o.ac.items {
			kinds[i] = it.kind
		}
		r.Sample(map[string]any{"side": "asker", "path": o.path, "responder": o.resp.ip.String(), "distances": o.ac.dists, "item_kinds": kinds, "returned": len(o.result)})
	}
}

func runAskWorld(r *lib.Run, idx, perResp, direct int) (done int, err error) {
	rng := r.RNG("ask-world", idx)
	hub := pnode.NewHub()
	A, err := hub.StartNode(pnode.NodeOpts{Key: pnode.NewKey(rng), Addr: aAddrs[idx%len(aAddrs)], RespTimeout: 300 * time.Millisecond})
	if err != nil {
		return 0, fmt.Errorf("start A: %w", err)
	}
	defer A.Stop()
	proto := string(portalwire.History)
	var wg sync.WaitGroup
	var mu sync.Mutex
	var advs []*pnode.Adversary
	for si, sd := range netResponders {
		adv, err := hub.StartAdversary(pnode.AdvOpts{Key: pnode.NewKey(rng), Addr: sd.addr, RespTimeout: 300 * time.Millisecond})
		if err != nil {
			return 0, fmt.Errorf("start responder: %w", err)
		}
		advs = append(advs, adv)
		ctx := newResponderCtx(sd.class, adv.Self(), r.RNG(fmt.Sprintf("ask-pool-%d", idx), si), idx*16+si)
		adv.OnTalk(proto, func(from *enode.Node, addr *net.UDPAddr, msg []byte) []byte {
			if len(msg) == 0 || msg[0] != msgFindNodes {
				return nil // A's table pings the responder now and then
			}
			ctx.mu.Lock()
			defer ctx.mu.Unlock()
			ctx.got++
			return ctx.next
		})
		wg.Add(1)
		go func(si int, adv *pnode.Adversary, ctx *responderCtx) {
			defer wg.Done()
			crng := r.RNG(fmt.Sprintf("ask-net-%d", idx), si)
			for k := 0; k < perResp; k++ {
				ac := ctx.genCase(crng, k+si+idx, A.Self(), maxDatagram-talkRespMaxFrame)
				raws := make([][]byte, len(ac.items))
				for i, it := range ac.items {
					raws[i] = it.raw
				}
				ctx.mu.Lock()
				ctx.next = encNodes(1, raws)
				before := ctx.got
				ctx.mu.Unlock()
				o := &askObs{r: r, world: idx, path: "net", resp: ctx, ac: ac}
				o.result, o.err = A.P.VerifFindNodes(adv.Self(), ac.dists)
				ctx.mu.Lock()
				reached := ctx.got > before
				ctx.mu.Unlock()
				if !reached {
					r.Count("ask_request_never_reached_responder", 1)
					r.Inconclusive("asker world %d: FINDNODES to %s did not reach the scripted responder: %v", idx, ctx.class, o.err)
				}
				o.judge()
				mu.Lock()
				done++
				mu.Unlock()
			}
		}(si, adv, ctx)
	}
	wg.Add(1)
	go func() {
		defer wg.Done()
		drng := r.RNG(fmt.Sprintf("ask-direct-%d", idx), 0)
		var ctxs []*responderCtx
		for i, dr := range directResponders {
			self := pnode.SignedNode(pnode.NewKey(drng), netip.MustParseAddr(dr.ip), 9400+i, 1)
			ctxs = append(ctxs, newResponderCtx(dr.class, self, drng, idx*16+8+i))
		}
		for k := 0; k < direct; k++ {
			ctx := ctxs[(k+idx)%len(ctxs)]
			ac := ctx.genCase(drng, k*3+idx+1, A.Self(), 0)
			if ac.nilDists {
				// processNodes(nil) is the convention of the content path (no distance filter); a FINDNODES
				// caller can reach it only through findNodes, which the hub path exercises
				ac.nilDists, ac.dists, ac.distClass = false, []uint{}, "empty"
			}
			raws := make([][]byte, len(ac.items))
			for i, it := range ac.items {
				raws[i] = it.raw
			}
			o := &askObs{r: r, world: idx, path: "direct", resp: ctx, ac: ac}
			o.result, o.err = A.P.VerifProcessNodes(ctx.self, encNodes(1, raws), ac.dists)
			o.judge()
			mu.Lock()
			done++
			mu.Unlock()
		}
	}()
	wg.Wait()
	for _, a := range advs {
		a.Stop()
	}
	return done, nil
}
