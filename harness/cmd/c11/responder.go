package main

// Responder side: a real node R answers FINDNODES from raw askers; every reply
// is judged against the table snapshots taken around the request.

import (
	"bytes"
	"fmt"
	"math/rand"
	"net"
	"net/netip"
	"sort"
	"sync"
	"time"

	"github.com/ethereum/go-ethereum/p2p/enode"
	"github.com/ethereum/go-ethereum/p2p/enr"
	"github.com/ethereum/go-ethereum/rlp"
	"github.com/zen-eth/shisui/portalwire"
	"verifharness/lib"
	"verifharness/pnode"
)

var rClasses = []struct {
	name string
	addr netip.AddrPort
}{
	{"R-public", pnode.Addr4(52, 14, 7, 9, 9000)},
	{"R-lan", pnode.Addr4(10, 20, 30, 40, 9000)},
	{"R-loopback", pnode.Addr4(127, 0, 0, 1, 9000)},
	{"R-lan192", pnode.Addr4(192, 168, 1, 10, 9000)},
}

var fillClasses = []string{"max300", "graded", "mixed", "sparse", "nonlive", "lanheavy", "fit"}

type askerDef struct {
	class string
	addr  netip.AddrPort
}

var netAskers = []askerDef{
	{"loopback", pnode.Addr4(127, 0, 0, 2, 9101)},
	{"lan10", pnode.Addr4(10, 1, 2, 3, 9102)},
	{"lan192", pnode.Addr4(192, 168, 7, 9, 9103)},
	{"public", pnode.Addr4(8, 8, 4, 4, 9104)},
	{"public", pnode.Addr4(1, 2, 3, 4, 9105)},
	{"lan172", pnode.Addr4(172, 16, 5, 5, 9106)},
	{"linklocal", pnode.Addr4(169, 254, 3, 3, 9107)},
	{"loopback", pnode.Addr4(127, 9, 9, 9, 9108)},
}

// askers used through the handler entry point only (no socket): address forms a
// socket layer can report, including IPv6 and IPv4-mapped IPv6.
var directAskers = []struct {
	class string
	ip    net.IP
}{
	{"public", net.IP{9, 9, 9, 9}},
	{"lan10", net.IP{10, 200, 1, 1}},
	{"loopback", net.IP{127, 0, 0, 77}},
	{"special", net.IP{192, 0, 2, 9}},
	{"special", net.IP{203, 0, 113, 1}},
	{"v6-loopback", net.ParseIP("::1")},
	{"v6-linklocal", net.ParseIP("fe80::1234")},
	{"v6-ula", net.ParseIP("fd00::5")},
	{"v6-public", net.ParseIP("2606:4700::1111")},
	{"mapped-lan", net.ParseIP("10.0.0.7").To16()},
	{"mapped-public", net.ParseIP("44.3.2.1").To16()},
	{"lan192", net.IP{192, 168, 200, 200}},
}

type fillNode struct {
	n    *enode.Node
	live bool
	ld   int
}

type respWorld struct {
	r      *lib.Run
	idx    int
	hub    *pnode.Hub
	R      *pnode.Node
	rClass string
	fill   string
	nodes  []fillNode
	filled []int // distances that have entries
	selfIP netip.Addr

	tapMu sync.Mutex
	dgs   map[netip.AddrPort][]int
}

func (w *respWorld) tap(d pnode.Datagram, _ []byte) {
	if d.Src != w.R.Conn.AddrPort() {
		return
	}
	w.tapMu.Lock()
	w.dgs[d.Dst] = append(w.dgs[d.Dst], d.Len)
	w.tapMu.Unlock()
}

func (w *respWorld) tapMark(a netip.AddrPort) int {
	w.tapMu.Lock()
	defer w.tapMu.Unlock()
	return len(w.dgs[a])
}

func (w *respWorld) tapSince(a netip.AddrPort, mark int) []int {
	w.tapMu.Lock()
	defer w.tapMu.Unlock()
	return append([]int(nil), w.dgs[a][mark:]...)
}

// buildFill creates the table filling of this world.
func (w *respWorld) buildFill(rng *rand.Rand) {
	self := w.R.ID()
	pool := newKeyPool(self)
	pub := &publicIPs{n: w.idx * 97}
	type plan struct {
		ld, count int
		size      func() int // target record size; 0 = natural
		signed    bool
	}
	var plans []plan
	rsz := func(lo, hi int) func() int { return func() int { return lo + rng.Intn(hi-lo+1) } }
	fix := func(v int) func() int { return func() int { return v } }
	liveP, ipMix := 0.75, [4]int{50, 25, 15, 10} // public, lan, loopback, special
	switch w.fill {
	case "max300":
		for _, d := range []int{256, 255, 254, 253} {
			plans = append(plans, plan{d, 16, fix(300), true})
		}
		plans = append(plans, plan{250, 16, fix(300), false}, plan{240, 8, fix(300), false}, plan{100, 8, fix(300), false})
	case "graded":
		plans = append(plans, plan{256, 16, fix(300), true}, plan{255, 16, fix(288), true}, plan{254, 16, fix(289), true},
			plan{253, 16, rsz(140, 300), true}, plan{250, 8, rsz(100, 200), false}, plan{245, 6, fix(0), false},
			plan{240, 4, fix(0), false}, plan{239, 4, fix(0), false}, plan{100, 4, fix(0), false}, plan{1, 2, fix(0), false})
	case "mixed":
		liveP = 0.6
		for _, d := range []int{256, 255, 254, 253} {
			plans = append(plans, plan{d, 16, rsz(130, 300), true})
		}
		for _, d := range []int{252, 248, 241, 240, 200, 17} {
			plans = append(plans, plan{d, 1 + rng.Intn(8), rsz(70, 300), false})
		}
	case "sparse":
		for _, d := range []int{256, 254, 250, 239} {
			plans = append(plans, plan{d, 1 + rng.Intn(3), rsz(0, 300), d > 252})
		}
	case "nonlive":
		liveP = 0.05
		for _, d := range []int{256, 255, 254} {
			plans = append(plans, plan{d, 16, rsz(130, 300), true})
		}
		plans = append(plans, plan{247, 10, fix(0), false}, plan{5, 6, fix(0), false})
	case "lanheavy":
		ipMix = [4]int{10, 50, 35, 5}
		for _, d := range []int{256, 255, 254, 253} {
			plans = append(plans, plan{d, 16, fix(300), true})
		}
		plans = append(plans, plan{246, 12, rsz(200, 300), false}, plan{230, 10, rsz(200, 300), false})
	case "fit":
		// sizes s with k·(s+4) just below / just above the room left in a 1280-byte packet
		liveP, ipMix = 0.9, [4]int{70, 15, 10, 5}
		plans = append(plans, plan{256, 16, fix(288), true}, plan{255, 16, fix(289), true}, plan{254, 16, fix(230), true},
			plan{253, 16, fix(231), true}, plan{252, 16, fix(191), false}, plan{251, 16, fix(192), false},
			plan{250, 16, rsz(285, 292), false}, plan{249, 16, rsz(226, 233), false}, plan{200, 16, rsz(160, 164), false})
	}
	want := map[int]int{}
	for _, p := range plans {
		if p.signed {
			want[p.ld] = p.count
		}
	}
	pool.grind(rng, want)
	special := 0
	for _, p := range plans {
		for i := 0; i < p.count; i++ {
			var ip netip.Addr
			x := rng.Intn(100)
			switch {
			case x < ipMix[0]:
				ip = pub.next()
			case x < ipMix[0]+ipMix[1]:
				ip = lanIP(rng)
			case x < ipMix[0]+ipMix[1]+ipMix[2]:
				ip = loopIP(rng)
			default:
				// special-purpose addresses count against the table's per-/24 limits: at most 2 per range
				if special < 2*len(specialIPs) {
					ip = specialIPs[special%len(specialIPs)]
					special++
				} else {
					ip = pub.next()
				}
			}
			spec := recSpec{ip: ip, udp: 1025 + rng.Intn(60000), seq: uint64(1 + rng.Intn(1000))}
			var sg signer
			if p.signed {
				sg = v4Signer(pool.by[p.ld][i])
			} else {
				sg = nullSigner(pnode.IDAtLogDist(self, p.ld, rng))
			}
			n := sized(sg, spec, p.size())
			w.nodes = append(w.nodes, fillNode{n: n, live: rng.Float64() < liveP, ld: p.ld})
		}
		w.filled = append(w.filled, p.ld)
	}
	rng.Shuffle(len(w.nodes), func(i, j int) { w.nodes[i], w.nodes[j] = w.nodes[j], w.nodes[i] })
}

// applyFill (re-)adds every fill node; nodes already present are left alone by the table.
func (w *respWorld) applyFill() {
	tab := w.R.P.VerifTable()
	for _, f := range w.nodes {
		if tab.VerifAddFound(f.n, f.live) {
			w.r.Count("resp_table_adds", 1)
		}
	}
}

type distCase struct {
	class string
	wire  []uint16
}

func (w *respWorld) genDistances(rng *rand.Rand, k int) distCase {
	f := func() uint16 { return uint16(w.filled[rng.Intn(len(w.filled))]) }
	seq := func(lo, hi int) []uint16 {
		var o []uint16
		if lo <= hi {
			for d := lo; d <= hi; d++ {
				o = append(o, uint16(d))
			}
		} else {
			for d := lo; d >= hi; d-- {
				o = append(o, uint16(d))
			}
		}
		return o
	}
	switch k % 24 {
	case 0:
		return distCase{"empty", nil}
	case 1:
		return distCase{"zero", []uint16{0}}
	case 2:
		return distCase{"zero-first", []uint16{0, 256}}
	case 3:
		return distCase{"zero-last", []uint16{256, 0}}
	case 4, 5, 6:
		return distCase{"single", []uint16{f()}}
	case 7:
		return distCase{"few", []uint16{f(), f(), f()}}
	case 8:
		return distCase{"all-1..256", seq(1, 256)}
	case 9:
		return distCase{"all-0..255", seq(0, 255)}
	case 10:
		return distCase{"all-257-values", seq(0, 256)}
	case 11:
		n := 257 + rng.Intn(130) // the request must still fit a discv5 handshake packet
		o := make([]uint16, n)
		for i := range o {
			o[i] = uint16(rng.Intn(257))
		}
		return distCase{"over-256-entries", o}
	case 12:
		a, b := f(), f()
		return distCase{"repeats", []uint16{a, a, b, a, 0, 0, b, b}}
	case 13:
		return distCase{"invalid-values", []uint16{257, uint16(300 + rng.Intn(60000)), 65535, f(), 512, 0x0100 + 1}}
	case 14:
		return distCase{"only-invalid", []uint16{257, 65535, uint16(258 + rng.Intn(1000))}}
	case 15:
		o := []uint16{uint16(1 + rng.Intn(240)), uint16(1 + rng.Intn(240)), 240, 239}
		rng.Shuffle(len(o), func(i, j int) { o[i], o[j] = o[j], o[i] })
		return distCase{"closest-bucket-shared", o[:2+rng.Intn(3)]}
	case 16:
		return distCase{"closest-bucket-one", []uint16{uint16(1 + rng.Intn(240))}}
	case 17:
		return distCase{"descending", seq(256, 256-rng.Intn(17))}
	case 18:
		return distCase{"zero-late", append(seq(256, 253-rng.Intn(4)), 0)}
	case 19:
		return distCase{"zero-mid", []uint16{f(), 0, f()}}
	case 20:
		return distCase{"ascending-far", seq(241+rng.Intn(10), 256)}
	case 21:
		return distCase{"max-256-entries-repeated", func() []uint16 {
			o := make([]uint16, 256)
			for i := range o {
				o[i] = f()
			}
			return o
		}()}
	default:
		n := 1 + rng.Intn(20)
		o := make([]uint16, n)
		for i := range o {
			switch rng.Intn(4) {
			case 0:
				o[i] = uint16(rng.Intn(300))
			case 1:
				o[i] = f()
			default:
				o[i] = uint16(236 + rng.Intn(22))
			}
		}
		return distCase{"random", o}
	}
}

type entryInfo struct {
	live        bool
	rec         []byte
	replacement bool
}

func snapMap(s portalwire.VerifTableSnap) map[enode.ID]entryInfo {
	m := map[enode.ID]entryInfo{}
	for _, b := range s.Buckets {
		for _, e := range b.Replacements {
			m[e.ID] = entryInfo{live: e.Live, rec: recBytes(e.Node), replacement: true}
		}
		for _, e := range b.Entries {
			m[e.ID] = entryInfo{live: e.Live, rec: recBytes(e.Node)}
		}
	}
	return m
}

type respObs struct {
	world     *respWorld
	askerCls  string
	askerIP   netip.Addr
	path      string // "net" | "direct"
	dc        distCase
	reply     []byte
	talkErr   error
	datagrams []int // R -> asker datagram sizes during the exchange (net path)
	before    portalwire.VerifTableSnap
	after     portalwire.VerifTableSnap
}

func (o *respObs) witness(extra map[string]any) map[string]any {
	w := map[string]any{
		"world": o.world.idx, "responder": o.world.rClass, "responder_ip": o.world.selfIP.String(), "table_fill": o.world.fill,
		"asker_class": o.askerCls, "asker_ip": o.askerIP.String(), "path": o.path,
		"distance_class": o.dc.class, "distances": trimU16(o.dc.wire, 40), "n_distances": len(o.dc.wire),
		"reply_hex": lib.HexShort(o.reply, 160), "reply_len": len(o.reply), "datagrams_R_to_asker": o.datagrams,
		"request_hex": lib.HexShort(encFindNodes(o.dc.wire), 96),
	}
	if o.talkErr != nil {
		w["talk_error"] = o.talkErr.Error()
	}
	for k, v := range extra {
		w[k] = v
	}
	return w
}

func trimU16(d []uint16, n int) []uint16 {
	if len(d) > n {
		return d[:n]
	}
	return d
}

// judge applies the responder-side oracle to one exchange.
func (o *respObs) judge() {
	r := o.world.r
	R := o.world.R
	selfID := R.ID()
	r.Eval(1)
	r.Count("resp_requests_"+o.path, 1)

	// (1) one discv5 packet
	big := 0
	for _, l := range o.datagrams {
		if l > big {
			big = l
		}
	}
	if big > maxDatagram {
		report(r, "responder:datagram-exceeds-1280",
			fmt.Sprintf("R sent a %d-byte datagram to the asker while answering FINDNODES (limit %d)", big, maxDatagram),
			o.witness(map[string]any{"largest_datagram": big}))
	}
	if o.talkErr != nil {
		if big <= maxDatagram {
			r.Count("resp_talk_errors", 1)
			r.Inconclusive("responder world %d asker %s: talk request (%s, %d distances) failed without an oversized datagram: %v; datagrams R->asker %v", o.world.idx, o.askerCls, o.dc.class, len(o.dc.wire), o.talkErr, o.datagrams)
		}
		return
	}
	decodable := len(o.dc.wire) <= 256
	if len(o.reply) == 0 {
		if decodable {
			r.Count("resp_empty_reply_decodable_request", 1)
			r.Inconclusive("responder world %d: empty TALKRESP for a decodable FINDNODES (%s)", o.world.idx, o.dc.class)
		} else {
			r.Count("resp_empty_reply_over_256_distances", 1)
			r.Distinct(fmt.Sprintf("resp|%s|%s|%s|%s|empty", o.world.rClass, o.world.fill, o.askerCls, o.dc.class))
		}
		return
	}
	if !decodable {
		r.Count("resp_answered_over_256_distances", 1) // the statement leaves this open
	}
	_, items, err := decNodes(o.reply)
	if err != nil {
		r.Count("resp_reply_undecodable", 1)
		r.Inconclusive("responder world %d: reply is not a well-formed NODES message: %x", o.world.idx, o.reply[:min(len(o.reply), 32)])
		return
	}
	if o.path == "direct" {
		// no datagram to measure: the packet would be body + TALKRESP framing
		if len(o.reply)+talkRespMaxFrame > maxDatagram {
			report(r, "responder:datagram-exceeds-1280",
				fmt.Sprintf("NODES body of %d bytes needs a %d-byte discv5 packet (limit %d)", len(o.reply), len(o.reply)+talkRespMaxFrame, maxDatagram),
				o.witness(nil))
		}
		big = len(o.reply) + talkRespMaxFrame
	} else {
		// find the datagram that carried this reply
		carrier := 0
		for _, l := range o.datagrams {
			if l >= len(o.reply)+talkRespMinFrame && l > carrier {
				carrier = l
			}
		}
		if carrier == 0 {
			r.Count("resp_reply_datagram_not_seen", 1)
			r.Inconclusive("responder world %d: tap saw no datagram large enough for the %d-byte reply", o.world.idx, len(o.reply))
			big = len(o.reply) + talkRespMaxFrame
		} else {
			r.Max("resp_max_framing_overhead", carrier-len(o.reply))
			big = carrier
		}
	}
	r.Max("resp_max_reply_datagram", big)
	r.Max("resp_max_reply_body", len(o.reply))
	if big >= maxDatagram-16 && big <= maxDatagram {
		r.Count("resp_replies_within_16B_of_1280", 1)
	}
	if len(o.reply) > maxDatagram-talkRespMaxFrame {
		r.Count("resp_body_over_internal_bound", 1)
	}

	// requested valid distances, in order, repeats ignored
	var valid []int
	seenD := map[int]bool{}
	zeroAsked := false
	for _, d := range o.dc.wire {
		if d > 256 || seenD[int(d)] {
			continue
		}
		seenD[int(d)] = true
		valid = append(valid, int(d))
		if d == 0 {
			zeroAsked = true
		}
	}
	covered := map[int]bool{}
	bucketReqs := map[int]int{}
	for _, d := range valid {
		if d > 0 {
			covered[refBucketOf(d)] = true
			bucketReqs[refBucketOf(d)]++
		}
	}

	// (2) at most 32
	if len(items) > maxRecordsInReply {
		report(r, "responder:more-than-32-records", fmt.Sprintf("%d records in one NODES reply", len(items)), o.witness(nil))
	}
	r.Max("resp_max_records_in_reply", len(items))

	bm, am := snapMap(o.before), snapMap(o.after)
	selfRec := recBytes(R.Self())
	seen := map[string]int{}
	selfPresent := false
	present := map[enode.ID]bool{}
	for i, it := range items {
		key := string(it)
		seen[key]++
		if seen[key] == 2 {
			sig := "responder:record-repeated"
			var rr enr.Record
			if rlp.DecodeBytes(it, &rr) == nil {
				if rn, err := enode.New(enode.ValidSchemesForTesting, &rr); err == nil && bucketReqs[refBucketOf(refLogDist(selfID, rn.ID()))] > 1 {
					// several different valid distances of the request are covered by this record's bucket
					sig = "responder:record-repeated:distinct-distances-share-closest-bucket"
				}
			}
			if sig != "responder:record-repeated" {
				// The statement demands that repeated DISTANCES are ignored; different distances that the table
				// covers with one (the closest) bucket are not repeated distances, and the statement says nothing
				// about a record offered once per such distance (upstream go-ethereum behaves the same): counted only.
				r.Count("dontcare_record_repeated_distinct_distances_share_closest_bucket", 1)
				continue
			}
			report(r, sig, fmt.Sprintf("record #%d of the reply is a repeat of an earlier one", i),
				o.witness(map[string]any{"record_hex": lib.Hex(it), "valid_distances": trimInts(valid, 40)}))
			continue
		}
		if seen[key] > 2 {
			continue
		}
		var rec enr.Record
		if err := rlp.DecodeBytes(it, &rec); err != nil {
			report(r, "responder:record-not-table-entry:undecodable", fmt.Sprintf("record #%d does not decode: %v", i, err),
				o.witness(map[string]any{"record_hex": lib.Hex(it)}))
			continue
		}
		n, err := enode.New(enode.ValidSchemesForTesting, &rec)
		if err != nil {
			report(r, "responder:record-not-table-entry:invalid", fmt.Sprintf("record #%d is not a valid node record: %v", i, err),
				o.witness(map[string]any{"record_hex": lib.Hex(it)}))
			continue
		}
		ip := addrOfIP(n.IP())
		rel := refRelay(o.askerIP, ip)
		if n.ID() == selfID {
			// the local record
			selfPresent = true
			if !bytes.Equal(it, selfRec) {
				if _, err := enode.New(enode.ValidSchemes, &rec); err != nil {
					report(r, "responder:self-record-invalid", "record with the responder's id is not its signed record", o.witness(map[string]any{"record_hex": lib.Hex(it)}))
				}
			}
			if !zeroAsked {
				report(r, "responder:self-record-without-distance-0", "the local record was offered although distance 0 was not requested",
					o.witness(map[string]any{"valid_distances": trimInts(valid, 40)}))
			}
			if rel == relayNo {
				report(r, "responder:unrelayable-self-record",
					fmt.Sprintf("local record with %s address %v offered to %s asker %v", refClassify(ip), ip, refClassify(o.askerIP), o.askerIP),
					o.witness(nil))
			}
			r.Count("resp_self_record_offered", 1)
			continue
		}
		present[n.ID()] = true
		r.Count("resp_records_checked", 1)
		// current table entry
		eb, inB := bm[n.ID()]
		ea, inA := am[n.ID()]
		okEntry, live, replOnly := false, false, false
		for _, c := range []struct {
			e  entryInfo
			in bool
		}{{eb, inB}, {ea, inA}} {
			if !c.in {
				continue
			}
			if c.e.replacement {
				replOnly = true
				continue
			}
			if bytes.Equal(c.e.rec, it) {
				okEntry = true
				live = live || c.e.live
			}
		}
		if !okEntry {
			sig := "responder:record-not-table-entry"
			if replOnly {
				sig += ":replacement"
			} else if inB || inA {
				sig += ":stale-record"
			}
			report(r, sig, fmt.Sprintf("record #%d (id %s) is not a current bucket entry of R's table", i, n.ID().TerminalString()),
				o.witness(map[string]any{"record_hex": lib.Hex(it), "in_before": inB, "in_after": inA}))
			continue
		}
		if !live {
			report(r, "responder:record-not-liveness-checked", fmt.Sprintf("record #%d (id %s) is a table entry that never passed a liveness check", i, n.ID().TerminalString()),
				o.witness(map[string]any{"record_hex": lib.Hex(it)}))
		}
		ld := refLogDist(selfID, n.ID())
		if !covered[refBucketOf(ld)] {
			report(r, "responder:record-from-uncovered-bucket",
				fmt.Sprintf("record #%d lies at log-distance %d (bucket %d); no valid requested distance is covered by that bucket", i, ld, refBucketOf(ld)),
				o.witness(map[string]any{"record_hex": lib.Hex(it), "valid_distances": trimInts(valid, 40)}))
		} else if !seenD[ld] {
			r.Count("resp_records_same_bucket_other_distance", 1)
		}
		if rel == relayNo {
			report(r, "responder:unrelayable-record",
				fmt.Sprintf("record #%d with %s address %v relayed to %s asker %v", i, refClassify(ip), ip, refClassify(o.askerIP), o.askerIP),
				o.witness(map[string]any{"record_hex": lib.Hex(it)}))
		}
	}

	// what the table had to offer (entries that are eligible in both snapshots)
	type elig struct {
		id   enode.ID
		size int
		ld   int
	}
	var certain []elig
	possible := map[enode.ID]int{} // eligible in at least one snapshot -> log distance
	for _, m := range []map[enode.ID]entryInfo{bm, am} {
		for id, e := range m {
			if e.replacement || !e.live {
				continue
			}
			ld := refLogDist(selfID, id)
			if !covered[refBucketOf(ld)] {
				continue
			}
			var rec enr.Record
			if rlp.DecodeBytes(e.rec, &rec) != nil {
				continue
			}
			if n, err := enode.New(enode.ValidSchemesForTesting, &rec); err == nil && refRelay(o.askerIP, addrOfIP(n.IP())) != relayNo {
				possible[id] = ld
			}
		}
	}
	filteredByRelay, notLive := 0, 0
	for id, e := range bm {
		if e.replacement {
			continue
		}
		a, ok := am[id]
		if !ok || a.replacement || !bytes.Equal(a.rec, e.rec) {
			continue
		}
		ld := refLogDist(selfID, id)
		if !covered[refBucketOf(ld)] {
			continue
		}
		if !(e.live && a.live) {
			notLive++
			continue
		}
		var rec enr.Record
		if rlp.DecodeBytes(e.rec, &rec) != nil {
			continue
		}
		n, err := enode.New(enode.ValidSchemesForTesting, &rec)
		if err != nil {
			continue
		}
		if refRelay(o.askerIP, addrOfIP(n.IP())) != relayYes {
			filteredByRelay++
			continue
		}
		certain = append(certain, elig{id, len(e.rec), ld})
	}
	r.Count("resp_relay_filtered_records_asker_"+o.askerCls, filteredByRelay)
	r.Count("resp_nonlive_entries_withheld", notLive)
	if len(certain) >= maxRecordsInReply {
		r.Count("resp_requests_with_32_or_more_eligible", 1)
	}
	missing := 0
	for _, e := range certain {
		if !present[e.id] {
			missing++
		}
	}
	if missing > 0 && len(items) < maxRecordsInReply {
		r.Count("resp_replies_truncated_by_size", 1)
	}
	if missing > 0 && len(items) >= maxRecordsInReply {
		r.Count("resp_replies_truncated_by_32_limit", 1)
	}
	if len(items) > 0 {
		r.Count("resp_nonempty_replies", 1)
	}

	// (3) distance 0 ⇒ the local record, unless unrelayable or crowded out by earlier distances
	if zeroAsked {
		r.Count("resp_distance0_requests", 1)
		selfRel := refRelay(o.askerIP, o.world.selfIP)
		switch {
		case selfPresent:
		case selfRel != relayYes:
			r.Count("resp_self_withheld_unrelayable", 1)
		default:
			// eligible entries of the distances listed before 0
			earlier := map[int]bool{}
			earlierShared := false
			for _, d := range valid {
				if d == 0 {
					break
				}
				if earlier[refBucketOf(d)] {
					earlierShared = true
				}
				earlier[refBucketOf(d)] = true
			}
			earlierMissing := 0
			for id, ld := range possible {
				if earlier[refBucketOf(ld)] && !present[id] {
					earlierMissing++
				}
			}
			room := big+len(selfRec)+4 <= maxDatagram
			if earlierMissing == 0 && len(items) < maxRecordsInReply && room {
				sig := "responder:self-record-missing-for-distance-0"
				if earlierShared {
					// several different distances listed before 0 are covered by one bucket: its entries were offered once
					// per distance and used up the budget — the same budget excuse as for earlier distances, counted only
					r.Count("dontcare_self_crowded_out_by_repeats_of_shared_bucket", 1)
					sig = ""
				}
				if sig != "" {
					report(r, sig,
						fmt.Sprintf("distance 0 requested by %s asker %v, local record (%s, %d bytes) relayable and fitting (reply datagram %d bytes, %d records), yet absent",
							refClassify(o.askerIP), o.askerIP, refClassify(o.world.selfIP), len(selfRec), big, len(items)),
						o.witness(map[string]any{"valid_distances": trimInts(valid, 40)}))
				}
			} else {
				r.Count("resp_self_crowded_out_by_earlier_distances", 1)
			}
		}
	}
	nrec := "0"
	switch {
	case len(items) >= 8:
		nrec = "8+"
	case len(items) >= 4:
		nrec = "4-7"
	case len(items) >= 1:
		nrec = "1-3"
	}
	r.Distinct(fmt.Sprintf("resp|%s|%s|%s|%s|%s", o.world.rClass, o.world.fill, o.askerCls, o.dc.class, nrec))
	noteClass("resp_distinct_asker_x_distance_x_fill_classes", fmt.Sprintf("%s|%s|%s", o.askerCls, o.dc.class, o.world.fill))
	if len(items) >= 3 && o.world.idx%3 == 1 && takeSample("resp", 3) {
		r.Sample(map[string]any{"side": "responder", "responder": o.world.rClass, "fill": o.world.fill, "asker": o.askerIP.String(), "path": o.path,
			"distance_class": o.dc.class, "distances": trimU16(o.dc.wire, 12), "records": len(items), "reply_bytes": len(o.reply), "datagram": big})
	}
}

func maxOf(d []int) int {
	m := 0
	for _, x := range d {
		if x > m {
			m = x
		}
	}
	return m
}

func trimInts(d []int, n int) []int {
	if len(d) > n {
		return d[:n]
	}
	return d
}

// runRespWorld executes one responder world; returns the number of requests executed.
func runRespWorld(r *lib.Run, idx, perAsker, direct int) (done int, err error) {
	rng := r.RNG("resp-world", idx)
	w := &respWorld{r: r, idx: idx, hub: pnode.NewHub(), dgs: map[netip.AddrPort][]int{}}
	rc := rClasses[idx%len(rClasses)]
	w.rClass = rc.name
	w.fill = fillClasses[(idx/len(rClasses)+idx)%len(fillClasses)]
	w.selfIP = rc.addr.Addr()
	opts := pnode.NodeOpts{Key: pnode.NewKey(rng), Addr: rc.addr, RespTimeout: 300 * time.Millisecond}
	if idx%3 == 0 {
		opts.ExtraEntries = []enr.Entry{enr.WithEntry("pad", bytes.Repeat([]byte{0x5a}, 100+rng.Intn(40)))}
	}
	R, err := w.hub.StartNode(opts)
	if err != nil {
		return 0, fmt.Errorf("start R: %w", err)
	}
	w.R = R
	defer R.Stop()
	w.hub.SetTap(w.tap)
	w.buildFill(rng)
	w.applyFill()
	r.Max("resp_max_self_record_bytes", len(recBytes(R.Self())))
	snap := R.P.VerifTable().VerifSnapshot(false)
	for _, b := range snap.Buckets {
		r.Max("resp_max_bucket_entries", len(b.Entries))
		big := 0
		for _, e := range b.Entries {
			if len(recBytes(e.Node)) >= 299 {
				big++
			}
		}
		r.Max("resp_max_300B_records_in_one_bucket", big)
	}

	proto := string(portalwire.History)
	var wg sync.WaitGroup
	var mu sync.Mutex
	var advs []*pnode.Adversary
	for ai, ad := range netAskers {
		adv, err := w.hub.StartAdversary(pnode.AdvOpts{Key: pnode.NewKey(rng), Addr: ad.addr, RespTimeout: 300 * time.Millisecond})
		if err != nil {
			return 0, fmt.Errorf("start asker: %w", err)
		}
		advs = append(advs, adv)
		wg.Add(1)
		go func(ai int, ad askerDef, adv *pnode.Adversary) {
			defer wg.Done()
			arng := r.RNG(fmt.Sprintf("resp-asker-%d", idx), ai)
			for k := 0; k < perAsker; k++ {
				dc := w.genDistances(arng, k*len(netAskers)+ai+idx)
				o := &respObs{world: w, askerCls: ad.class, askerIP: ad.addr.Addr(), path: "net", dc: dc}
				for try := 0; try < 2; try++ {
					o.before = R.P.VerifTable().VerifSnapshot(false)
					mark := w.tapMark(ad.addr)
					o.reply, o.talkErr = adv.Talk(R.Self(), proto, encFindNodes(dc.wire))
					o.datagrams = w.tapSince(ad.addr, mark)
					o.after = R.P.VerifTable().VerifSnapshot(false)
					if o.talkErr == nil || maxOf(o.datagrams) > maxDatagram {
						break
					}
					// a lost exchange (e.g. R's own revalidation handshake crossing ours): ask once more
					r.Count("resp_talk_retries", 1)
				}
				o.judge()
				mu.Lock()
				done++
				mu.Unlock()
			}
		}(ai, ad, adv)
	}
	// handler entry point with address forms that need no socket
	wg.Add(1)
	go func() {
		defer wg.Done()
		drng := r.RNG(fmt.Sprintf("resp-direct-%d", idx), 0)
		peers := make([]*enode.Node, len(directAskers))
		for i, da := range directAskers {
			peers[i] = pnode.SignedNode(pnode.NewKey(drng), addrOfIP(da.ip), 9300+i, 1)
		}
		for k := 0; k < direct; k++ {
			if k%40 == 39 {
				w.applyFill() // revalidation of the unreachable fill nodes slowly empties the table
			}
			i := (k + idx) % len(directAskers)
			da := directAskers[i]
			dc := w.genDistances(drng, k*7+idx+3)
			o := &respObs{world: w, askerCls: da.class, askerIP: addrOfIP(da.ip), path: "direct", dc: dc}
			o.before = R.P.VerifTable().VerifSnapshot(false)
			o.reply = R.P.VerifHandleTalkRequest(peers[i], &net.UDPAddr{IP: da.ip, Port: 9300 + i}, encFindNodes(dc.wire))
			o.after = R.P.VerifTable().VerifSnapshot(false)
			o.judge()
			mu.Lock()
			done++
			mu.Unlock()
		}
	}()
	wg.Wait()
	for _, a := range advs {
		a.Stop()
	}
	return done, nil
}

// selfTestRef cross-checks the reference geometry against the table's own
// placement and reports the address palette (the relay cross-check lives in main).
func bucketSelfTest(tab *portalwire.Table, self enode.ID, rng *rand.Rand) []string {
	var bad []string
	for d := 1; d <= 256; d++ {
		id := pnode.IDAtLogDist(self, d, rng)
		if refLogDist(self, id) != d || enode.LogDist(self, id) != d {
			bad = append(bad, fmt.Sprintf("logdist(%d)", d))
		}
		if got := tab.VerifBucketIndex(id); got != refBucketOf(d) {
			bad = append(bad, fmt.Sprintf("bucket(%d): table %d, reference %d", d, got, refBucketOf(d)))
		}
	}
	sort.Strings(bad)
	if len(bad) > 5 {
		bad = append(bad[:5], "…")
	}
	return bad
}
