package main

// Reference model for C11, written from the property statement, the relay rule
// text ("special-purpose / unspecified addresses are never relayed; loopback
// addresses only to loopback hosts; LAN addresses only to LAN (or loopback)
// hosts; everything else always") and the portal wire spec (SSZ layout of
// FINDNODES / NODES). Nothing here calls shisui code.

import (
	"encoding/binary"
	"errors"
	"net"
	"net/netip"
)

// ---- relay rule ---------------------------------------------------------

type ipClass int

const (
	ipNone      ipClass = iota // no / invalid address
	ipUnspec                   // 0.0.0.0, ::
	ipSpecial                  // special-purpose registry, multicast, broadcast, documentation
	ipLoop                     // 127/8, ::1
	ipLAN                      // RFC1918, link-local, fc00::/7, fe80::/10
	ipPublic                   // everything else
	ipAmbiguous                // ranges on which address registries and the rule text may disagree: never generated, never judged
)

func (c ipClass) String() string {
	return [...]string{"none", "unspec", "special", "loopback", "lan", "public", "ambiguous"}[c]
}

func pfx(s string) netip.Prefix { return netip.MustParsePrefix(s) }

var (
	refSpecial4 = []netip.Prefix{
		pfx("0.0.0.0/8"), pfx("192.0.0.0/29"), pfx("192.0.0.9/32"), pfx("192.0.0.170/31"),
		pfx("192.0.2.0/24"), pfx("192.31.196.0/24"), pfx("192.52.193.0/24"), pfx("192.88.99.0/24"),
		pfx("192.175.48.0/24"), pfx("198.18.0.0/15"), pfx("198.51.100.0/24"), pfx("203.0.113.0/24"),
		pfx("224.0.0.0/4"), pfx("255.255.255.255/32"),
	}
	refAmbiguous4 = []netip.Prefix{pfx("240.0.0.0/4"), pfx("100.64.0.0/10"), pfx("192.0.0.0/24")}
	refLAN4       = []netip.Prefix{pfx("10.0.0.0/8"), pfx("172.16.0.0/12"), pfx("192.168.0.0/16"), pfx("169.254.0.0/16")}
	refLoop4      = pfx("127.0.0.0/8")

	refSpecial6 = []netip.Prefix{
		pfx("ff00::/8"), pfx("100::/64"), pfx("2001::/32"), pfx("2001:2::/48"), pfx("2001:db8::/32"), pfx("2002::/16"),
		pfx("2001:10::/28"), pfx("2001:20::/28"),
	}
	refAmbiguous6 = []netip.Prefix{pfx("2001::/23"), pfx("64:ff9b::/96"), pfx("64:ff9b:1::/48"), pfx("fec0::/10")}
	refLAN6       = []netip.Prefix{pfx("fc00::/7"), pfx("fe80::/10")}
)

func inAny(a netip.Addr, l []netip.Prefix) bool {
	for _, p := range l {
		if p.Contains(a) {
			return true
		}
	}
	return false
}

func refClassify(a netip.Addr) ipClass {
	if !a.IsValid() {
		return ipNone
	}
	if a.Is4In6() {
		a = a.Unmap()
	}
	a = a.WithZone("")
	if a.Is4() {
		b := a.As4()
		switch {
		case b == [4]byte{}:
			return ipUnspec
		case inAny(a, refSpecial4):
			return ipSpecial
		case refLoop4.Contains(a):
			return ipLoop
		case inAny(a, refLAN4):
			return ipLAN
		case inAny(a, refAmbiguous4):
			return ipAmbiguous
		}
		return ipPublic
	}
	b := a.As16()
	switch {
	case b == [16]byte{}:
		return ipUnspec
	case b == [16]byte{15: 1}:
		return ipLoop
	case inAny(a, refSpecial6):
		return ipSpecial
	case inAny(a, refLAN6):
		return ipLAN
	case inAny(a, refAmbiguous6):
		return ipAmbiguous
	}
	return ipPublic
}

type relayVerdict int

const (
	relayNo relayVerdict = iota
	relayYes
	relayDontCare
)

// refRelay decides whether a record whose address is rec may be handed to /
// accepted from a host whose address is peer.
func refRelay(peer, rec netip.Addr) relayVerdict {
	rc, pc := refClassify(rec), refClassify(peer)
	if rc == ipAmbiguous || pc == ipAmbiguous {
		return relayDontCare
	}
	switch rc {
	case ipNone, ipUnspec, ipSpecial:
		return relayNo
	case ipLoop:
		if pc == ipLoop {
			return relayYes
		}
		return relayNo
	case ipLAN:
		if pc == ipLAN || pc == ipLoop {
			return relayYes
		}
		return relayNo
	}
	return relayYes
}

func addrOfIP(ip net.IP) netip.Addr {
	if ip == nil {
		return netip.Addr{}
	}
	if v4 := ip.To4(); v4 != nil {
		return netip.AddrFrom4([4]byte(v4))
	}
	a, _ := netip.AddrFromSlice(ip)
	return a
}

// ---- XOR log distance and bucket geometry -------------------------------------

// refLogDist is the bit length of a XOR b (big-endian ids).
func refLogDist(a, b [32]byte) int {
	for i := 0; i < 32; i++ {
		x := a[i] ^ b[i]
		if x != 0 {
			n := 0
			for x != 0 {
				n++
				x >>= 1
			}
			return (31-i)*8 + n
		}
	}
	return 0
}

// Table geometry (discv5-style table with 17 buckets): bucket k > 0 covers
// exactly log-distance 240+k, bucket 0 covers every closer distance (1..240).
const refBuckets = 17

func refBucketOf(d int) int {
	if d <= 256-refBuckets+1 {
		return 0
	}
	return d - (256 - refBuckets) - 1
}

// ---- wire formats ---------------------------------------------------------------

const (
	msgFindNodes = 0x02
	msgNodes     = 0x03
)

// encFindNodes: 02 ‖ offset(4)=4 ‖ distances as uint16 little-endian.
func encFindNodes(d []uint16) []byte {
	out := make([]byte, 5, 5+2*len(d))
	out[0] = msgFindNodes
	binary.LittleEndian.PutUint32(out[1:], 4)
	for _, x := range d {
		out = binary.LittleEndian.AppendUint16(out, x)
	}
	return out
}

// encNodes: 03 ‖ total ‖ offset(4)=5 ‖ ssz list of byte strings.
func encNodes(total byte, items [][]byte) []byte {
	out := []byte{msgNodes, total, 5, 0, 0, 0}
	off := 4 * len(items)
	for _, it := range items {
		out = binary.LittleEndian.AppendUint32(out, uint32(off))
		off += len(it)
	}
	for _, it := range items {
		out = append(out, it...)
	}
	return out
}

func nodesBodyLen(items [][]byte) int {
	n := 6
	for _, it := range items {
		n += 4 + len(it)
	}
	return n
}

var errBadNodes = errors.New("ref: malformed NODES message")

// decNodes is a strict decoder of the NODES message.
func decNodes(b []byte) (total byte, items [][]byte, err error) {
	if len(b) < 6 || b[0] != msgNodes {
		return 0, nil, errBadNodes
	}
	total = b[1]
	if binary.LittleEndian.Uint32(b[2:6]) != 5 {
		return 0, nil, errBadNodes
	}
	l := b[6:]
	if len(l) == 0 {
		return total, nil, nil
	}
	if len(l) < 4 {
		return 0, nil, errBadNodes
	}
	first := int(binary.LittleEndian.Uint32(l[:4]))
	if first%4 != 0 || first == 0 || first > len(l) {
		return 0, nil, errBadNodes
	}
	n := first / 4
	offs := make([]int, n+1)
	for i := 0; i < n; i++ {
		offs[i] = int(binary.LittleEndian.Uint32(l[4*i:]))
	}
	offs[n] = len(l)
	for i := 0; i < n; i++ {
		if offs[i] > offs[i+1] || offs[i] > len(l) {
			return 0, nil, errBadNodes
		}
		items = append(items, l[offs[i]:offs[i+1]])
	}
	return total, items, nil
}

// discv5 v5.1 ordinary message packet carrying TALKRESP [request-id, response]:
// masking IV 16 + static header 23 + authdata (source id) 32 + message type 1 +
// rlp list header ≤ 3 + request id ≤ 8 with 1 prefix byte + byte-string header ≤ 3 +
// AES-GCM tag 16.
const (
	maxDatagram       = 1280
	talkRespMaxFrame  = 16 + 23 + 32 + 1 + 3 + 9 + 3 + 16 // 103
	talkRespMinFrame  = 16 + 23 + 32 + 1 + 1 + 1 + 1 + 16 // shortest possible framing
	maxRecordsInReply = 32
)
