package main

// Start-up nodes: R is started with configured bootstrap nodes - one that does not exist (nobody listens at
// its endpoint) and one that does. Both enter the table when it is created and again at every refresh, before
// anybody has answered. FINDNODES requests arrive at once. Ground truth is the monitor's own: a record may be
// offered only if at least one datagram from its endpoint has ever been addressed to R.

import (
	"fmt"
	"net"
	"net/netip"
	"sync"
	"time"

	"github.com/ethereum/go-ethereum/p2p/enode"
	"github.com/ethereum/go-ethereum/p2p/enr"
	"github.com/ethereum/go-ethereum/rlp"
	"github.com/zen-eth/shisui/portalwire"
	"verifharness/lib"
	"verifharness/pnode"
)

const sigStartupNode = "responder:startup-node-offered-before-any-answer"

func runSeedWorld(r *lib.Run, idx int) {
	rng := r.RNG("startup-seeds", idx)
	hub := pnode.NewHub()
	rAddr := pnode.Addr4(10, 40, byte(idx), 1, 9000)
	var mu sync.Mutex
	heard := map[netip.AddrPort]int{}
	hub.SetTap(func(d pnode.Datagram, _ []byte) {
		if d.Dst == rAddr {
			mu.Lock()
			heard[d.Src]++
			mu.Unlock()
		}
	})
	heardFrom := func(ep netip.AddrPort) int { mu.Lock(); defer mu.Unlock(); return heard[ep] }
	proto := string(portalwire.History)
	Y, err := hub.StartAdversary(pnode.AdvOpts{Key: pnode.NewKey(rng), Addr: pnode.Addr4(10, 40, byte(idx), 2, 9301), RespTimeout: 300 * time.Millisecond})
	if err != nil {
		r.FloorMiss("seed world %d: start Y: %v", idx, err)
		return
	}
	defer Y.Stop()
	Y.OnTalk(proto, func(_ *enode.Node, _ *net.UDPAddr, msg []byte) []byte {
		if len(msg) > 0 && msg[0] == 0x00 {
			return pongEcho(Y.Self().Seq(), msg)
		}
		if _, ok := decFindNodes(msg); ok {
			return encNodes(1, nil)
		}
		return nil
	})
	var dead []*enode.Node
	for i := 0; i < 3; i++ {
		dead = append(dead, pnode.SignedNode(pnode.NewKey(rng), pnode.Addr4(10, 40, byte(idx), byte(50+i), 0).Addr(), 9400+i, 1))
	}
	boot := append([]*enode.Node{Y.Self()}, dead...)
	R, err := hub.StartNode(pnode.NodeOpts{Key: pnode.NewKey(rng), Addr: rAddr, RespTimeout: 300 * time.Millisecond, Bootnodes: boot})
	if err != nil {
		r.FloorMiss("seed world %d: start R: %v", idx, err)
		return
	}
	defer R.Stop()
	A, err := hub.StartAdversary(pnode.AdvOpts{Key: pnode.NewKey(rng), Addr: pnode.Addr4(10, 40, byte(idx), 3, 9102), RespTimeout: 300 * time.Millisecond})
	if err != nil {
		r.FloorMiss("seed world %d: start asker: %v", idx, err)
		return
	}
	defer A.Stop()
	known := map[enode.ID]string{Y.Self().ID(): "existing bootstrap node"}
	var dists []uint16
	seenD := map[uint16]bool{}
	for _, n := range boot {
		d := uint16(refLogDist(R.ID(), n.ID()))
		if !seenD[d] {
			seenD[d] = true
			dists = append(dists, d)
		}
	}
	for _, n := range dead {
		known[n.ID()] = "bootstrap node that does not exist"
	}
	tab := R.P.VerifTable()
	inTable := func() int {
		k := 0
		for _, b := range tab.VerifSnapshot(false).Buckets {
			for _, e := range b.Entries {
				if known[e.ID] != "" {
					k++
				}
			}
		}
		return k
	}
	r.Count("seed_worlds", 1)
	if inTable() > 0 {
		r.Count("seed_worlds_with_startup_nodes_in_table_at_first_request", 1)
		r.Distinct(fmt.Sprintf("startup-seeds|%d", idx))
	}
	for k := 0; k < 8; k++ {
		reply, err := A.Talk(R.Self(), proto, encFindNodes(dists))
		r.Eval(1)
		if err != nil || len(reply) == 0 {
			r.Count("seed_requests_unanswered", 1)
			continue
		}
		_, items, err := decNodes(reply)
		if err != nil {
			continue
		}
		r.Count("seed_requests_judged", 1)
		for _, it := range items {
			var rec enr.Record
			if rlp.DecodeBytes(it, &rec) != nil {
				continue
			}
			n, err := enode.New(enode.ValidSchemesForTesting, &rec)
			if err != nil || known[n.ID()] == "" {
				continue
			}
			ep := endpointOf(n)
			if heardFrom(ep) > 0 {
				r.Count("seed_offered_after_datagrams_from_that_node", 1)
				continue
			}
			report(r, sigStartupNode, fmt.Sprintf("R offers %s (%s, %s) in request %d after start-up although no datagram from %s was ever addressed to R", n.ID().TerminalString(), known[n.ID()], ep, k, ep),
				map[string]any{"world": idx, "record_hex": lib.Hex(it), "record_endpoint": ep.String(), "record_kind": known[n.ID()], "request": k, "datagrams_from_record_endpoint_to_R": 0, "startup_nodes_in_table": inTable()})
			return
		}
		time.Sleep(time.Duration(5+20*k) * time.Millisecond)
	}
}
