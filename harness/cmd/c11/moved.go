package main

// Moved-endpoint group: a peer that R has genuinely checked (R pinged it and it answered) publishes
// a newer record with another endpoint - only the UDP port, only the IP, or both - while it keeps
// answering at the old one. R's own revalidation (real timers) pings the old endpoint, sees the higher
// sequence number, fetches the record and installs it. Nobody has ever answered from the NEW endpoint.
// Ground truth is the monitor's: a record may be offered in a NODES reply only if at least one
// datagram from that record's endpoint has ever been addressed to R. The table's live flag is not
// consulted.

import (
	"fmt"
	"net"
	"net/netip"
	"sync"
	"time"

	"github.com/ethereum/go-ethereum/p2p/enode"
	"github.com/ethereum/go-ethereum/p2p/enr"
	"github.com/ethereum/go-ethereum/rlp"
	"github.com/zen-eth/shisui/portalwire"
	"verifharness/lib"
	"verifharness/pnode"
)

const sigMovedEndpoint = "responder:record-with-unchecked-new-endpoint-offered"

func runMovedWorld(r *lib.Run, idx int) {
	rng := r.RNG("moved-endpoint", idx)
	kind := []string{"port-only", "ip-only", "ip-and-port"}[idx%3]
	hub := pnode.NewHub()
	rAddr := pnode.Addr4(10, 30, 0, 1, 9000)
	R, err := hub.StartNode(pnode.NodeOpts{Key: pnode.NewKey(rng), Addr: rAddr, RespTimeout: 300 * time.Millisecond})
	if err != nil {
		r.FloorMiss("moved world %d: start R: %v", idx, err)
		return
	}
	defer R.Stop()
	var mu sync.Mutex
	heard := map[netip.AddrPort]int{}
	hub.SetTap(func(d pnode.Datagram, _ []byte) {
		if d.Dst == rAddr {
			mu.Lock()
			heard[d.Src]++
			mu.Unlock()
		}
	})
	heardFrom := func(ep netip.AddrPort) int { mu.Lock(); defer mu.Unlock(); return heard[ep] }
	proto := string(portalwire.History)
	oldEP := pnode.Addr4(10, 30, 1, byte(1+idx%200), 9301)
	newEP := oldEP
	switch kind {
	case "port-only":
		newEP = netip.AddrPortFrom(oldEP.Addr(), 9555)
	case "ip-only":
		newEP = netip.AddrPortFrom(pnode.Addr4(10, 30, 2, byte(1+idx%200), 0).Addr(), oldEP.Port())
	default:
		newEP = pnode.Addr4(10, 30, 2, byte(1+idx%200), 9555)
	}
	Y, err := hub.StartAdversary(pnode.AdvOpts{Key: pnode.NewKey(rng), Addr: oldEP, RespTimeout: 300 * time.Millisecond})
	if err != nil {
		r.FloorMiss("moved world %d: start Y: %v", idx, err)
		return
	}
	defer Y.Stop()
	Y.OnTalk(proto, func(_ *enode.Node, _ *net.UDPAddr, msg []byte) []byte {
		if len(msg) > 0 && msg[0] == 0x00 {
			return pongEcho(Y.Self().Seq(), msg)
		}
		if ds, ok := decFindNodes(msg); ok {
			for _, d := range ds {
				if d == 0 {
					b, _ := rlp.EncodeToBytes(Y.Self().Record())
					return encNodes(1, [][]byte{b})
				}
			}
			return encNodes(1, nil)
		}
		return nil
	})
	A, err := hub.StartAdversary(pnode.AdvOpts{Key: pnode.NewKey(rng), Addr: pnode.Addr4(10, 30, 3, 1, 9102), RespTimeout: 300 * time.Millisecond})
	if err != nil {
		r.FloorMiss("moved world %d: start asker: %v", idx, err)
		return
	}
	defer A.Stop()
	// R checks Y itself
	if _, err := R.P.VerifPing(Y.Self()); err != nil {
		r.Inconclusive("moved world %d: R's ping of the peer was not answered: %v", idx, err)
		return
	}
	tab := R.P.VerifTable()
	yid := Y.Self().ID()
	entry := func() (portalwire.VerifNodeSnap, bool) {
		for _, b := range tab.VerifSnapshot(false).Buckets {
			for _, e := range b.Entries {
				if e.ID == yid {
					return e, true
				}
			}
		}
		return portalwire.VerifNodeSnap{}, false
	}
	if _, ok := entry(); !ok {
		r.Inconclusive("moved world %d: the pinged peer did not become a table entry", idx)
		return
	}
	dist := uint16(refLogDist(R.ID(), yid))
	ask := func(phase string) (offeredNew bool) {
		reply, err := A.Talk(R.Self(), proto, encFindNodes([]uint16{dist, 0, dist - 1}))
		r.Eval(1)
		if err != nil || len(reply) == 0 {
			r.Count("moved_requests_unanswered", 1)
			return false
		}
		_, items, err := decNodes(reply)
		if err != nil {
			return false
		}
		r.Count("moved_requests_judged", 1)
		for _, it := range items {
			var rec enr.Record
			if rlp.DecodeBytes(it, &rec) != nil {
				continue
			}
			n, err := enode.New(enode.ValidSchemesForTesting, &rec)
			if err != nil || n.ID() != yid {
				continue
			}
			ep := endpointOf(n)
			if heardFrom(ep) > 0 {
				r.Count("moved_offered_with_endpoint_R_heard_from", 1)
				continue
			}
			e, _ := entry()
			report(r, sigMovedEndpoint, fmt.Sprintf("R offers the record (seq %d) of peer %s with endpoint %s although no datagram from %s was ever addressed to R; R checked that peer only at %s (%s change, %s)",
				n.Seq(), yid.TerminalString(), ep, ep, oldEP, kind, phase),
				map[string]any{"world": idx, "change": kind, "checked_endpoint": oldEP.String(), "offered_endpoint": ep.String(), "offered_seq": n.Seq(), "record_hex": lib.Hex(it),
					"datagrams_from_offered_endpoint_to_R": 0, "datagrams_from_checked_endpoint_to_R": heardFrom(oldEP), "table_live_flag": e.Live, "table_credit": e.Checks, "phase": phase})
			return true
		}
		return false
	}
	ask("before-change")
	// the peer publishes a newer record; it keeps answering at the old endpoint only
	if newEP.Addr() != oldEP.Addr() {
		Y.Local.SetStaticIP(newEP.Addr().AsSlice())
	}
	if newEP.Port() != oldEP.Port() {
		Y.Local.Set(enr.UDP(newEP.Port()))
	}
	if endpointOf(Y.Self()) != newEP {
		r.Inconclusive("moved world %d: could not publish the new endpoint (record says %v)", idx, endpointOf(Y.Self()))
		return
	}
	// scheduling only: R's revalidation runs on its own timers (3 s ping interval); ask while waiting
	installed := false
	deadline := time.Now().Add(45 * time.Second)
	for time.Now().Before(deadline) {
		e, ok := entry()
		if !ok {
			break // dropped: nothing more to observe
		}
		if netip.AddrPortFrom(e.IP, uint16(e.UDP)) == newEP {
			installed = true
			break
		}
		time.Sleep(50 * time.Millisecond)
	}
	if !installed {
		r.Count("moved_worlds_new_record_not_installed_info", 1)
		return
	}
	r.Count("moved_worlds_new_record_installed", 1)
	for k := 0; k < 6; k++ {
		if ask("after-new-record-installed") {
			break
		}
		if _, ok := entry(); !ok {
			break
		}
		time.Sleep(100 * time.Millisecond)
	}
	r.Distinct(fmt.Sprintf("moved-endpoint|%s|%d", kind, idx))
	noteClass("moved_endpoint_change_kinds_installed", kind)
}

// runMovedDuringCheckWorld: the newer record (other endpoint) reaches R through a third party - as a lookup result
// would - while one of R's own liveness checks to the OLD endpoint is in flight; the old endpoint then answers. The
// answer proves nothing about the new endpoint.
func runMovedDuringCheckWorld(r *lib.Run, idx int) {
	rng := r.RNG("moved-during-check", idx)
	hub := pnode.NewHub()
	rAddr := pnode.Addr4(10, 31, byte(idx), 1, 9000)
	R, err := hub.StartNode(pnode.NodeOpts{Key: pnode.NewKey(rng), Addr: rAddr, RespTimeout: 1500 * time.Millisecond})
	if err != nil {
		r.FloorMiss("moved-during-check world %d: start R: %v", idx, err)
		return
	}
	defer R.Stop()
	var mu sync.Mutex
	heard := map[netip.AddrPort]int{}
	hub.SetTap(func(d pnode.Datagram, _ []byte) {
		if d.Dst == rAddr {
			mu.Lock()
			heard[d.Src]++
			mu.Unlock()
		}
	})
	heardFrom := func(ep netip.AddrPort) int { mu.Lock(); defer mu.Unlock(); return heard[ep] }
	proto := string(portalwire.History)
	oldEP := pnode.Addr4(10, 31, byte(idx), 2, 9301)
	newEP := netip.AddrPortFrom(oldEP.Addr(), 9556)
	if idx%2 == 1 {
		newEP = pnode.Addr4(10, 31, byte(idx), 3, 9301)
	}
	ykey := pnode.NewKey(rng)
	Y, err := hub.StartAdversary(pnode.AdvOpts{Key: ykey, Addr: oldEP, RespTimeout: 300 * time.Millisecond})
	if err != nil {
		r.FloorMiss("moved-during-check world %d: start Y: %v", idx, err)
		return
	}
	defer Y.Stop()
	tab := R.P.VerifTable()
	var armed, fired atomicBool
	newRec := pnode.SignedNode(ykey, newEP.Addr(), int(newEP.Port()), Y.Self().Seq()+1)
	Y.OnTalk(proto, func(_ *enode.Node, _ *net.UDPAddr, msg []byte) []byte {
		if len(msg) > 0 && msg[0] == 0x00 {
			if armed.get() && !fired.get() {
				fired.set(true)
				// R's check of the old endpoint is in flight right now: the newer record arrives from elsewhere
				tab.VerifAddFound(newRec, false)
			}
			return pongEcho(Y.Self().Seq(), msg) // the old endpoint answers; its sequence number is the old one
		}
		if _, ok := decFindNodes(msg); ok {
			return encNodes(1, nil)
		}
		return nil
	})
	A, err := hub.StartAdversary(pnode.AdvOpts{Key: pnode.NewKey(rng), Addr: pnode.Addr4(10, 31, byte(idx), 9, 9102), RespTimeout: 300 * time.Millisecond})
	if err != nil {
		r.FloorMiss("moved-during-check world %d: start asker: %v", idx, err)
		return
	}
	defer A.Stop()
	if _, err := R.P.VerifPing(Y.Self()); err != nil {
		r.Inconclusive("moved-during-check world %d: R's ping of the peer was not answered: %v", idx, err)
		return
	}
	yid := Y.Self().ID()
	armed.set(true)
	// scheduling only: wait for R's own revalidation to ping the peer again (3 s ping interval)
	deadline := time.Now().Add(45 * time.Second)
	for !fired.get() && time.Now().Before(deadline) {
		time.Sleep(20 * time.Millisecond)
	}
	if !fired.get() {
		r.Count("moved_during_check_worlds_not_reached_info", 1)
		return
	}
	time.Sleep(150 * time.Millisecond) // the answer is processed
	r.Count("moved_during_check_worlds_reached", 1)
	r.Distinct(fmt.Sprintf("moved-during-check|%d", idx))
	dist := uint16(refLogDist(R.ID(), yid))
	for k := 0; k < 4; k++ {
		reply, err := A.Talk(R.Self(), proto, encFindNodes([]uint16{dist}))
		r.Eval(1)
		if err != nil || len(reply) == 0 {
			continue
		}
		_, items, err := decNodes(reply)
		if err != nil {
			continue
		}
		for _, it := range items {
			var rec enr.Record
			if rlp.DecodeBytes(it, &rec) != nil {
				continue
			}
			n, err := enode.New(enode.ValidSchemesForTesting, &rec)
			if err != nil || n.ID() != yid {
				continue
			}
			ep := endpointOf(n)
			if heardFrom(ep) > 0 {
				continue
			}
			report(r, sigMovedEndpoint+":answer-from-old-endpoint-in-flight", fmt.Sprintf("R offers the record (seq %d) of peer %s with endpoint %s although no datagram from %s was ever addressed to R: the record arrived through a third party while R's check of the old endpoint %s was in flight, and the old endpoint's answer was booked for it",
				n.Seq(), yid.TerminalString(), ep, ep, oldEP),
				map[string]any{"world": idx, "checked_endpoint": oldEP.String(), "offered_endpoint": ep.String(), "offered_seq": n.Seq(), "datagrams_from_offered_endpoint_to_R": 0})
			return
		}
		time.Sleep(50 * time.Millisecond)
	}
}

type atomicBool struct {
	mu sync.Mutex
	v  bool
}

func (a *atomicBool) get() bool  { a.mu.Lock(); defer a.mu.Unlock(); return a.v }
func (a *atomicBool) set(v bool) { a.mu.Lock(); a.v = v; a.mu.Unlock() }
