// C06 — radius, admission and retained content agree under the XOR metric.
//
// Monitor: (1) the in-range helper and its three call paths (offer filtering,
// store RPC, exported InRange) are compared with the reference predicate
// d(node, id) < r on generated triples; (2) put histories on the real pebble
// store are checked after every step against the reference predicates
// (retained within radius, refusal only at/above the radius, radius only
// shrinks), in a regime where little- and big-endian readings coincide
// (strict) and in the general regime, where a violating history is attributed
// to the recorded little-endian defect only if the executable defect model
// reproduces its entire observable trace.
package main

import (
	"crypto/sha256"
	"encoding/binary"
	"errors"
	"fmt"
	"math/rand"
	"os"
	"path/filepath"
	"sort"
	"sync"
	"sync/atomic"
	"time"

	"github.com/cockroachdb/pebble"
	"github.com/ethereum/go-ethereum/common/hexutil"
	"github.com/ethereum/go-ethereum/p2p/enode"
	"github.com/holiman/uint256"
	"github.com/zen-eth/shisui/portalwire"
	pingext "github.com/zen-eth/shisui/portalwire/ping_ext"
	"github.com/zen-eth/shisui/storage"
	spebble "github.com/zen-eth/shisui/storage/pebble"
	"verifharness/lib"
	"verifharness/pnode"
	"verifharness/storeutil"
)

func main() { lib.Main("C06", "exploration", run) }

// ---------------------------------------------------------------- in-range triples

func refInRange(node enode.ID, r *uint256.Int, id [32]byte) (in bool, boundary bool) {
	d := storeutil.BE(storeutil.Xor(node, id))
	c := d.Cmp(r)
	return c < 0, c == 0
}

func radiusCases(rng *rand.Rand, d *uint256.Int) []*uint256.Int {
	one := uint256.NewInt(1)
	var out []*uint256.Int
	add := func(x *uint256.Int) { out = append(out, x.Clone()) }
	add(uint256.NewInt(0))
	add(one)
	add(uint256.NewInt(255))
	add(uint256.NewInt(256))
	add(uint256.NewInt(257))
	add(uint256.NewInt(511))
	add(uint256.NewInt(512))
	add(storeutil.MaxRadius)
	add(d)
	if !d.IsZero() {
		add(new(uint256.Int).Sub(d, one))
	}
	if d.Cmp(storeutil.MaxRadius) < 0 {
		add(new(uint256.Int).Add(d, one))
	}
	k := uint(rng.Intn(256))
	add(new(uint256.Int).Lsh(one, k))
	bl := uint(d.BitLen())
	if bl > 0 {
		add(new(uint256.Int).Lsh(one, bl-1)) // 2^(bitlen-1) <= d
		if bl < 256 {
			add(new(uint256.Int).Lsh(one, bl)) // 2^bitlen > d
		}
	}
	var rb [32]byte
	rng.Read(rb[:])
	add(new(uint256.Int).SetBytes32(rb[:]))
	// byte-reversed d: catches endianness confusion
	db := d.Bytes32()
	var rev [32]byte
	for i := range db {
		rev[i] = db[31-i]
	}
	add(new(uint256.Int).SetBytes32(rev[:]))
	return out
}

func triples(r *lib.Run) {
	n := r.Pick(12000, 400000)
	for i := 0; i < n; i++ {
		rng := r.RNG("triple", i)
		var node enode.ID
		var id [32]byte
		rng.Read(node[:])
		rng.Read(id[:])
		switch i % 5 {
		case 1: // close ids: share a long prefix
			copy(id[:], node[:])
			p := rng.Intn(32)
			rng.Read(id[p:])
		case 2: // one differing byte at each position
			copy(id[:], node[:])
			id[i/5%32] ^= byte(1 + rng.Intn(255))
		case 3:
			node = enode.ID{}
		}
		d := storeutil.BE(storeutil.Xor(node, id))
		for _, rad := range radiusCases(rng, d) {
			want, boundary := refInRange(node, rad, id)
			got := portalwire.VerifInRange(node, rad, id[:])
			r.Eval(1)
			if boundary {
				r.Count("triples_boundary_dontcare", 1)
				continue
			}
			diff := new(uint256.Int)
			near := false
			if d.Cmp(rad) > 0 {
				near = diff.Sub(d, rad).IsUint64() && diff.Uint64() <= 2
			} else {
				near = diff.Sub(rad, d).IsUint64() && diff.Uint64() <= 2
			}
			if near {
				r.DistinctBytes([]byte("triple"), node[:], id[:], rad.Bytes())
				r.Count("triples_within_2_of_radius", 1)
			}
			if got != want {
				cls := "radius>=2^9"
				if rad.Cmp(uint256.NewInt(512)) < 0 {
					cls = "radius<2^9"
				}
				r.Violation("inrange-disagrees:"+cls, fmt.Sprintf("inRange(node, r, id)=%v but d=%s %s r=%s", got, d.Hex(), map[bool]string{true: "<", false: ">="}[want], rad.Hex()),
					map[string]any{"node": lib.Hex(node[:]), "content_id": lib.Hex(id[:]), "radius": rad.Hex(), "distance": d.Hex()})
			}
			if want {
				r.Count("triples_in_range", 1)
			} else {
				r.Count("triples_out_of_range", 1)
			}
		}
	}
	r.Sample(map[string]any{"class": "in-range triple", "radii": "0,1,255,256,257,511,512,max,d,d-1,d+1,2^k,2^(bitlen-1),2^bitlen,random,byte-reversed d"})
}

// ---------------------------------------------------------------- call paths on a real node

type radiusStore struct {
	mu     sync.Mutex
	db     map[string][]byte
	radius *uint256.Int
}

func (s *radiusStore) Get(k, id []byte) ([]byte, error) {
	s.mu.Lock()
	defer s.mu.Unlock()
	if v, ok := s.db[string(id)]; ok {
		return v, nil
	}
	return nil, storage.ErrContentNotFound
}
func (s *radiusStore) Put(k, id, v []byte) error {
	s.mu.Lock()
	defer s.mu.Unlock()
	s.db[string(id)] = v
	return nil
}
func (s *radiusStore) Radius() *uint256.Int {
	s.mu.Lock()
	defer s.mu.Unlock()
	return s.radius.Clone()
}
func (s *radiusStore) Close() error { return nil }
func (s *radiusStore) set(r *uint256.Int) {
	s.mu.Lock()
	s.radius = r.Clone()
	s.mu.Unlock()
}

func callPaths(r *lib.Run) {
	hub := pnode.NewHub()
	rng := r.RNG("paths", 0)
	st := &radiusStore{db: map[string][]byte{}, radius: storeutil.MaxRadius.Clone()}
	node, err := hub.StartNode(pnode.NodeOpts{Key: pnode.NewKey(rng), Addr: pnode.Addr4(10, 0, 6, 1, 9000), Network: portalwire.History, Versions: []uint8{0, 1}, Storage: st, MaxUtp: 1 << 20, RespTimeout: 300 * time.Millisecond, VersionsTTL: time.Hour})
	if err != nil {
		r.FloorMiss("start node: %v", err)
		return
	}
	defer node.Stop()
	adv, err := hub.StartAdversary(pnode.AdvOpts{Key: pnode.NewKey(rng), Addr: pnode.Addr4(10, 0, 6, 2, 9001), Versions: []uint8{0, 1}, RespTimeout: time.Second})
	if err != nil {
		r.FloorMiss("start adversary: %v", err)
		return
	}
	defer adv.Stop()
	api := portalwire.NewPortalAPI(node.P)
	self := node.ID()
	// peers whose reported radius the monitor controls: gossip target selection
	var gpeers []*pnode.Adversary
	for i := 0; i < 10; i++ {
		a, err := hub.StartAdversary(pnode.AdvOpts{Key: pnode.NewKey(rng), Addr: pnode.Addr4(10, 0, 6, byte(10+i), 9100), Versions: []uint8{0, 1}, RespTimeout: time.Second})
		if err != nil {
			r.FloorMiss("start peer: %v", err)
			return
		}
		defer a.Stop()
		gpeers = append(gpeers, a)
	}
	reportRadius := func(a *pnode.Adversary, rad *uint256.Int) bool {
		rb, _ := rad.MarshalSSZ() // little-endian uint256, as the wire format says
		pl := pingext.NewClientInfoAndCapabilitiesPayload(rb, []uint16{0, 2, 65535})
		plb, err := pl.MarshalSSZ()
		if err != nil {
			return false
		}
		pb, _ := (&portalwire.Ping{EnrSeq: 1, PayloadType: pingext.ClientInfo, Payload: plb}).MarshalSSZ()
		// The node processes a ping on a goroutine of its own after answering it, and the only event the monitor can wait
		// for is the cache showing the reported value. A report of the value the cache already shows would be
		// "acknowledged" at once while its processing is still pending, and could then land after (and undo) the next,
		// different report. So a peer never reports the radius the node already has for it.
		if got, ok := node.P.VerifRadiusCacheGet(a.ID()); ok && string(got) == string(rb) {
			r.Count("gossip_path_radius_unchanged_not_reported_again", 1)
			return true
		}
		if _, err := a.Talk(node.Self(), string(portalwire.History), append([]byte{portalwire.PING}, pb...)); err != nil {
			return false
		}
		deadline := time.Now().Add(10 * time.Second) // the ping is processed asynchronously: wait for the event
		for time.Now().Before(deadline) {
			if got, ok := node.P.VerifRadiusCacheGet(a.ID()); ok && string(got) == string(rb) {
				return true
			}
			time.Sleep(200 * time.Microsecond)
		}
		return false
	}
	gossipCase := func(i int) {
		crng := r.RNG("gossip", i)
		key := make([]byte, 33)
		crng.Read(key)
		key[0] = 0x00
		id := sha256.Sum256(key)
		type pr struct {
			in, boundary bool
			rad          *uint256.Int
		}
		plan := map[enode.ID]pr{}
		covered := 0
		// identity of each peer's table entry object (0 = not an entry)
		entryObjects := func() map[enode.ID]uintptr {
			m := map[enode.ID]uintptr{}
			for _, b := range node.P.VerifTable().VerifSnapshot(false).Buckets {
				for _, e := range b.Entries {
					m[e.ID] = e.Inc
				}
			}
			return m
		}
		atReport := map[enode.ID]uintptr{}
		for _, a := range gpeers {
			d := storeutil.BE(storeutil.Xor(a.ID(), id))
			rads := radiusCases(crng, d)
			rad := rads[crng.Intn(len(rads))]
			if !reportRadius(a, rad) {
				// the node only takes a radius from a ping whose sender is in its table (or a replacement list) at the
				// moment the ping is processed; a peer that revalidation has just dropped is not: nothing to judge
				r.Count("gossip_path_reports_not_acknowledged_peer_not_judged", 1)
				continue
			}
			atReport[a.ID()] = entryObjects()[a.ID()]
			if crng.Intn(3) == 0 {
				// the local user adds the same record again (portal_historyAddEnr): a peer that is already known keeps the
				// radius it reported
				_, _ = api.AddEnr(a.Self().String())
				r.Count("gossip_path_known_peer_added_again", 1)
			}
			in, b := refInRange(a.ID(), rad, id)
			plan[a.ID()] = pr{in, b, rad}
			if in {
				covered++
			}
		}
		// gossip only considers table entries; the table's own revalidation may drop a peer at any time (these
		// scripted peers do not answer the node's pings), and a peer that was dropped after its report and added
		// again by the AddEnr step above is a NEW entry, to which AddEnr gives the maximum radius by design. So a
		// peer is judged only if the entry object it had when its report was acknowledged is still its entry
		// after the call (the verif snapshot carries the identity of each entry object).
		sel, err := node.P.GossipAndReturnPeers(nil, [][]byte{key}, [][]byte{{1}})
		after := entryObjects()
		inTable := func(id enode.ID) bool { return atReport[id] != 0 && after[id] == atReport[id] }
		for pid := range plan {
			if !inTable(pid) {
				r.Count("gossip_path_peers_not_judged_entry_dropped_or_replaced_since_its_report", 1)
			}
		}
		covered = 0
		for pid, p := range plan {
			if p.in && inTable(pid) {
				covered++
			}
		}
		r.Eval(1)
		if err != nil {
			r.Inconclusive("gossip case %d: %v", i, err)
			return
		}
		picked := map[enode.ID]bool{}
		for _, n := range sel {
			picked[n.ID()] = true
			p, known := plan[n.ID()]
			if !known {
				continue // the offerer of the OFFER path: radius never reported in a supported way
			}
			if !inTable(n.ID()) {
				continue // a new entry since the report: its radius is whatever it was added with
			}
			if !p.in && !p.boundary {
				r.Violation("inrange-path:gossip-target-out-of-range", fmt.Sprintf("gossip picked peer %x.. whose reported radius %s does not cover the content (distance from the PEER %s)", n.ID().Bytes()[:4], p.rad.Hex(), storeutil.BE(storeutil.Xor(n.ID(), id)).Hex()),
					map[string]any{"content_key": lib.Hex(key), "content_id": lib.Hex(id[:]), "peer": n.ID().String(), "radius": p.rad.Hex()})
			}
		}
		if covered <= 4 { // with at most four covered peers all of them are taken
			for pid, p := range plan {
				if p.in && inTable(pid) && !picked[pid] {
					r.Violation("inrange-path:gossip-covered-peer-skipped", fmt.Sprintf("gossip skipped peer %x.. although its reported radius %s covers the content and only %d peers are covered", pid[:4], p.rad.Hex(), covered),
						map[string]any{"content_key": lib.Hex(key), "content_id": lib.Hex(id[:]), "peer": pid.String(), "radius": p.rad.Hex()})
				}
			}
		}
		r.Count("gossip_path_cases", 1)
		r.Count("gossip_path_targets_checked", len(sel))
		r.DistinctBytes([]byte("gossip"), key)
	}
	n := r.Pick(1500, 20000)
	for i := 0; i < n; i++ {
		crng := r.RNG("path", i)
		key := make([]byte, 33)
		crng.Read(key)
		key[0] = 0x00
		id := sha256.Sum256(key)
		d := storeutil.BE(storeutil.Xor(self, id))
		rads := radiusCases(crng, d)
		rad := rads[crng.Intn(len(rads))]
		want, boundary := refInRange(self, rad, id)
		st.set(rad)
		r.Eval(1)
		wit := map[string]any{"node": lib.Hex(self[:]), "content_key": lib.Hex(key), "content_id": lib.Hex(id[:]), "radius": rad.Hex(), "distance": d.Hex()}
		if boundary {
			continue
		}
		// exported InRange
		if got := node.P.InRange(id[:]); got != want {
			r.Violation("inrange-path:InRange", fmt.Sprintf("PortalProtocol.InRange=%v, reference %v", got, want), wit)
		}
		// OFFER filtering (v1 verdict codes)
		offer := append([]byte{portalwire.OFFER}, append(binary.LittleEndian.AppendUint32(nil, 4), append(binary.LittleEndian.AppendUint32(nil, 4), key...)...)...)
		reply, err := adv.Talk(node.Self(), string(portalwire.History), offer)
		if err != nil || len(reply) < 2 || reply[0] != portalwire.ACCEPT {
			r.Inconclusive("offer %d got no ACCEPT: %v %x", i, err, reply)
		} else {
			acc := &portalwire.AcceptV1{}
			if err := acc.UnmarshalSSZ(reply[1:]); err != nil || len(acc.ContentKeys) != 1 {
				r.Inconclusive("offer %d: undecodable ACCEPT %x", i, reply)
			} else {
				code := portalwire.AcceptCode(acc.ContentKeys[0])
				r.Count(fmt.Sprintf("offer_verdict_code_%d", code), 1)
				if want && code == portalwire.NotWithinRadius {
					r.Violation("inrange-path:offer-declines-in-range", "OFFER verdict NotWithinRadius for a key whose distance is below the radius", wit)
				}
				if !want && code == portalwire.Accepted {
					r.Violation("inrange-path:offer-accepts-out-of-range", "OFFER accepted a key whose distance is not below the radius", wit)
				}
			}
		}
		// store RPC
		ok, err := api.Store(hexutil.Encode(key), "0x01")
		if err != nil {
			r.Inconclusive("store rpc: %v", err)
		} else if ok != want {
			r.Violation("inrange-path:store-rpc", fmt.Sprintf("Store RPC answered %v, reference in-range %v", ok, want), wit)
		}
		r.Count("call_path_cases", 1)
		r.DistinctBytes([]byte("path"), key, rad.Bytes())
	}
	st.set(storeutil.MaxRadius)
	ng := r.Pick(120, 3000)
	for i := 0; i < ng; i++ {
		gossipCase(i)
	}
}

// ---------------------------------------------------------------- put histories

type step struct {
	reopen bool
	id     [32]byte
	n      int
	acc    bool   // accepted
	rad    string // Radius() after the step
	set    string // hash of the retained key set after the step
}

type defectModel struct { // M_LE: the store with little-endian decoding of key bytes in inRadius / prune
	node   enode.ID
	capB   uint64
	size   uint64
	radius *uint256.Int
	items  map[[32]byte]int
}

func (m *defectModel) put(id [32]byte, n int) bool {
	d := storeutil.Xor(m.node, id)
	if !m.radius.Gt(storeutil.LE(d)) {
		return false
	}
	m.size += 32 + uint64(n)
	m.items[d] = n
	if m.size > m.capB {
		expect := uint64(float64(m.capB) * 0.05)
		keys := make([][32]byte, 0, len(m.items))
		for k := range m.items {
			keys = append(keys, k)
		}
		sort.Slice(keys, func(i, j int) bool { return storeutil.CmpKeys(keys[i], keys[j]) > 0 })
		var cur uint64
		for _, k := range keys {
			if cur < expect {
				cur += 32 + uint64(m.items[k])
				delete(m.items, k)
			} else {
				m.radius = storeutil.LE(k)
				break
			}
		}
		if m.size >= cur {
			m.size -= cur
		}
	}
	return true
}

// reopen: what NewStorage does in the defect model - above 95 % usage the radius is the little-endian reading of the
// farthest retained key, otherwise the maximum.
func (m *defectModel) reopen() {
	m.radius = storeutil.MaxRadius.Clone()
	if m.size > uint64(float64(m.capB)*(1-0.05)) {
		var far [32]byte
		found := false
		for k := range m.items {
			if !found || storeutil.CmpKeys(k, far) > 0 {
				far, found = k, true
			}
		}
		if found {
			m.radius = storeutil.LE(far)
		}
	}
}

func setHash(keys [][32]byte) string {
	h := sha256.New()
	for _, k := range keys {
		h.Write(k[:])
	}
	return lib.Hex(h.Sum(nil)[:8])
}

func (m *defectModel) setHash() string {
	keys := make([][32]byte, 0, len(m.items))
	for k := range m.items {
		keys = append(keys, k)
	}
	sort.Slice(keys, func(i, j int) bool { return storeutil.CmpKeys(keys[i], keys[j]) < 0 })
	return setHash(keys)
}

func palindrome(rng *rand.Rand) (id [32]byte) {
	rng.Read(id[:16])
	for i := 0; i < 16; i++ {
		id[31-i] = id[i]
	}
	return id
}

func runHistory(r *lib.Run, idx int, base string) {
	rng := r.RNG("hist", idx)
	regimeA := idx%2 == 0
	var node enode.ID
	if !regimeA {
		rng.Read(node[:])
	}
	dir := filepath.Join(base, fmt.Sprintf("h%d", idx))
	db, err := storeutil.OpenDir(dir, "c06")
	if err != nil {
		r.FloorMiss("open: %v", err)
		return
	}
	st, err := storeutil.NewStore(db, node, 1, "c06")
	if err != nil {
		r.FloorMiss("newstorage: %v", err)
		return
	}
	defer func() { st.Close(); os.RemoveAll(dir) }()
	model := &defectModel{node: node, capB: 1000000, radius: storeutil.MaxRadius.Clone(), items: map[[32]byte]int{}}
	var trace []step
	var strictViol []string
	var pool [][32]byte
	prevRadius := st.Radius().Clone()
	prunes := 0
	modelAgrees := true
	nSteps := 90 + rng.Intn(60)
	prevCount := 0
	reopens := 0
	for s := 0; s < nSteps; s++ {
		if s > 15 && rng.Intn(28) == 0 {
			// restart: the radius is re-derived on open (from the farthest retained item above 95 % usage, the maximum
			// otherwise); admission afterwards must agree with it like before
			st.Close()
			db, err = storeutil.OpenDir(dir, "c06")
			if err != nil {
				r.FloorMiss("reopen: %v", err)
				return
			}
			st, err = storeutil.NewStore(db, node, 1, "c06")
			if err != nil {
				r.Violation("reopen-error", fmt.Sprintf("NewStorage on reopen: %v", err), map[string]any{"history": idx})
				return
			}
			model.reopen()
			items, _ := storeutil.Scan(db)
			keys := make([][32]byte, len(items))
			for i, it := range items {
				keys[i] = it.Key
			}
			radAfter := st.Radius().Clone()
			if model.radius.Hex() != radAfter.Hex() || model.setHash() != setHash(keys) {
				modelAgrees = false
			}
			for _, k := range keys {
				if storeutil.BE(k).Gt(radAfter) {
					strictViol = append(strictViol, fmt.Sprintf("step %d (reopen): retained item at distance %s lies outside the advertised radius %s", s, storeutil.BE(k).Hex(), radAfter.Hex()))
					break
				}
			}
			trace = append(trace, step{reopen: true, rad: radAfter.Hex(), set: setHash(keys)})
			prevRadius = radAfter // a restart may legitimately widen the radius (maximum at or below 95 % usage)
			prevCount = len(items)
			reopens++
		}
		var id [32]byte
		switch {
		case len(pool) > 0 && rng.Intn(8) == 0:
			id = pool[rng.Intn(len(pool))] // re-put (also the farthest retained item now and then)
		case regimeA:
			id = palindrome(rng)
		default:
			switch rng.Intn(5) {
			case 0: // one non-zero distance byte at a chosen position: adversarial for byte order
				id = [32]byte(node)
				id[rng.Intn(32)] ^= byte(1 + rng.Intn(255))
			case 1: // byte-reversed twin of an earlier id's distance
				if len(pool) > 0 {
					d := storeutil.Xor(node, pool[rng.Intn(len(pool))])
					for i := range d {
						id[i] = d[31-i] ^ node[i]
					}
				} else {
					rng.Read(id[:])
				}
			case 2: // just below / above the current radius in big-endian reading
				rad := st.Radius().Bytes32()
				id = storeutil.Xor(node, rad)
				id[31] ^= byte(1 + rng.Intn(3))
			default:
				rng.Read(id[:])
			}
		}
		if id == [32]byte(node) {
			continue
		}
		pool = append(pool, id)
		n := 12000 + rng.Intn(36000)
		d := storeutil.Xor(node, id)
		radBefore := st.Radius().Clone()
		err := st.Put(nil, id[:], make([]byte, n))
		r.Eval(1)
		items, serr := storeutil.Scan(db)
		if serr != nil {
			r.Inconclusive("scan: %v", serr)
			return
		}
		radAfter := st.Radius().Clone()
		keys := make([][32]byte, len(items))
		for i, it := range items {
			keys[i] = it.Key
		}
		refused := errors.Is(err, storage.ErrInsufficientRadius)
		if err != nil && !refused {
			r.Violation("put-error", fmt.Sprintf("Put returned %v", err), map[string]any{"history": idx})
			return
		}
		if !refused && len(items) < prevCount { // fewer records than before an accepted put: a pruning pass ran
			prunes++
		}
		prevCount = len(items)
		trace = append(trace, step{id: id, n: n, acc: !refused, rad: radAfter.Hex(), set: setHash(keys)})
		// defect model in lock step
		macc := model.put(id, n)
		if macc == refused || model.radius.Hex() != radAfter.Hex() || model.setHash() != setHash(keys) {
			modelAgrees = false
		}
		// --- strict reference predicates (big-endian XOR metric) ---
		dBE := storeutil.BE(d)
		if refused && dBE.Lt(radBefore) {
			strictViol = append(strictViol, fmt.Sprintf("step %d: put refused for insufficient radius although distance %s < radius %s", s, dBE.Hex(), radBefore.Hex()))
		}
		if radAfter.Gt(prevRadius) {
			strictViol = append(strictViol, fmt.Sprintf("step %d: radius grew from %s to %s", s, prevRadius.Hex(), radAfter.Hex()))
		}
		for _, k := range keys {
			if storeutil.BE(k).Gt(radAfter) {
				strictViol = append(strictViol, fmt.Sprintf("step %d: retained item at distance %s lies outside the advertised radius %s", s, storeutil.BE(k).Hex(), radAfter.Hex()))
				break
			}
		}
		prevRadius = radAfter
	}
	reg := "B(general ids)"
	if regimeA {
		reg = "A(palindromic distances)"
	}
	r.Count("histories_regime_"+reg[:1], 1)
	r.Count("history_reopens", reopens)
	if prunes > 0 {
		r.Count("histories_with_prune_regime_"+reg[:1], 1)
		r.Count("prunes_observed", prunes)
		r.Distinct(fmt.Sprintf("hist-%d-%s", idx, reg[:1]))
	}
	if idx < 2 {
		r.Sample(map[string]any{"class": "put history", "regime": reg, "node": lib.Hex(node[:]), "steps": len(trace), "prunes": prunes, "final_radius": prevRadius.Hex()})
	}
	if len(strictViol) == 0 {
		return
	}
	wit := map[string]any{"history": idx, "regime": reg, "node": lib.Hex(node[:]), "capacityMB": 1, "violations": strictViol[:min(len(strictViol), 6)], "defect_model_reproduces_trace": modelAgrees, "steps": traceJSON(trace)}
	switch {
	case regimeA:
		// both readings coincide: no excuse
		r.Violation("radius-metric:"+classify(strictViol[0]), "regime A (little- and big-endian readings coincide): "+strictViol[0], wit)
	case modelAgrees:
		r.Violation("storage-radius-little-endian", "general ids: "+strictViol[0]+" — the whole trace equals the little-endian defect model's", wit)
	default:
		r.Violation("radius-metric:"+classify(strictViol[0]), "general ids, and the trace is NOT the little-endian defect model's: "+strictViol[0], wit)
	}
}

func classify(s string) string {
	switch {
	case contains(s, "refused"):
		return "refused-inside-radius"
	case contains(s, "grew"):
		return "radius-grew"
	default:
		return "retained-outside-radius"
	}
}

func contains(s, sub string) bool {
	for i := 0; i+len(sub) <= len(s); i++ {
		if s[i:i+len(sub)] == sub {
			return true
		}
	}
	return false
}

func traceJSON(t []step) []map[string]any {
	var out []map[string]any
	for _, s := range t {
		if s.reopen {
			out = append(out, map[string]any{"reopen": true, "radius_after": s.rad, "retained": s.set})
			continue
		}
		out = append(out, map[string]any{"id": lib.Hex(s.id[:]), "len": s.n, "accepted": s.acc, "radius_after": s.rad, "retained": s.set})
	}
	return out
}

// directedConcurrent: puts racing a pruning put, produced deliberately through the store's verif yield
// hook, in the regime where both byte orders coincide. At quiescence every retained item must lie
// within the advertised radius: a put may not be admitted against a radius that a concurrent prune
// has already shrunk by the time the item is stored.
func directedConcurrent(r *lib.Run, idx int, base string) {
	rng := r.RNG("directed", idx)
	var node enode.ID // zero: with palindromic ids little- and big-endian readings coincide
	dir := filepath.Join(base, fmt.Sprintf("d%d", idx))
	db, err := storeutil.OpenDir(dir, "c06d")
	if err != nil {
		r.FloorMiss("open: %v", err)
		return
	}
	st, err := storeutil.NewStore(db, node, 1, "c06d")
	if err != nil {
		r.FloorMiss("newstorage: %v", err)
		return
	}
	defer func() { st.Close(); os.RemoveAll(dir) }()
	// fill to just below capacity with items spread over the whole distance range
	for storeutil.Held(mustScan(db)) < 960000 {
		id := palindrome(rng)
		if err := st.Put(nil, id[:], make([]byte, 19000)); err != nil {
			r.FloorMiss("prefill: %v", err)
			return
		}
	}
	var arrivals, paused atomic.Int64
	release := make(chan struct{})
	var once sync.Once
	hook := func(p string) {
		if p != "put.afterAdd" || arrivals.Add(1) != 1 {
			return
		}
		paused.Add(1)
		select { // the first put (which will prune) waits until the others have had time to pass their admission check
		case <-release:
		case <-time.After(150 * time.Millisecond):
		}
	}
	spebble.VerifYield.Store(&hook)
	var wg sync.WaitGroup
	for w := 0; w < 2; w++ {
		wg.Add(1)
		// w=1: one small item at (almost) the maximum distance: farther than anything a prune keeps, so a
		// shrunk radius must refuse it; small enough not to cause a second prune that would remove it again
		id := palindrome(rng)
		id[0], id[31] = 0xff, 0xff
		size := 9000
		if w == 0 {
			id[0], id[31] = 0x01, 0x01 // the pruning put itself is a near item
			size = 45000
		}
		go func(w int, id [32]byte, size int) {
			defer wg.Done()
			if w > 0 {
				for paused.Load() == 0 && arrivals.Load() == 0 {
					time.Sleep(50 * time.Microsecond)
				}
			}
			err := st.Put(nil, id[:], make([]byte, size))
			r.Eval(1)
			if err != nil && !errors.Is(err, storage.ErrInsufficientRadius) {
				r.Violation("put-error", fmt.Sprintf("directed concurrent put: %v", err), nil)
			}
			if w > 0 {
				once.Do(func() { close(release) })
			}
		}(w, id, size)
	}
	wg.Wait()
	spebble.VerifYield.Store(nil)
	rad := st.Radius()
	for _, it := range mustScan(db) {
		if storeutil.BE(it.Key).Gt(rad) {
			r.Violation("radius-metric:retained-outside-radius:concurrent", fmt.Sprintf("after puts racing a pruning put, a retained item at distance %s lies outside the advertised radius %s (node id 0, palindromic ids)", storeutil.BE(it.Key).Hex(), rad.Hex()),
				map[string]any{"run": idx, "radius": rad.Hex(), "item_distance": lib.Hex(it.Key[:])})
			break
		}
	}
	r.Count("directed_concurrent_runs", 1)
	if paused.Load() > 0 {
		r.Distinct(fmt.Sprintf("directed-%d", idx))
	}
	if !rad.Eq(storeutil.MaxRadius) {
		r.Count("directed_concurrent_runs_with_prune", 1)
	}
}

func mustScan(db *pebble.DB) []storeutil.Item {
	it, _ := storeutil.Scan(db)
	return it
}

func run(r *lib.Run) {
	pnode.Quiet()
	r.SetRule("(1) (node id, radius, content id) triples with radii 0,1,2^8+-1,2^9-1,2^9,2^k,max,d,d+-1,byte-reversed d and random, ids random / sharing a prefix with the node / differing in one byte at each of the 32 positions, compared with d<r (d==r don't-care); " +
		"(2) the call paths on a real node: OFFER verdict codes, store RPC and exported InRange with a radius the monitor sets around the real distance, and gossip target selection with ten real peers (some of them added again through the AddEnr RPC after their report) whose radius reports (real PINGs) the monitor sets around each peer's distance; " +
		"(3) directed schedules: far puts racing a pruning put that is paused at the store's yield point; (4) put histories of 90..150 puts (1 MB capacity, 12..48 kB values, several prunes) checked after every step: regime A = node id 0 with palindromic ids (little- and big-endian readings coincide, strict oracle), regime B = general ids incl. single-byte, byte-reversed and just-around-the-radius distances. " +
		"distinct_nontrivial = triples with |d-r|<=2 + call-path cases + histories with >= 1 prune")
	r.Assume("distance = XOR of node id and content id read as a big-endian 256-bit number (property statement); equality d == r is don't-care for admission")
	r.Assume("a regime-B history that violates the strict oracle is attributed to the recorded finding storage-radius-little-endian only when the executable defect model reproduces every accept/refuse outcome, every Radius() value and every retained set of that history")
	triples(r)
	callPaths(r)
	base, err := os.MkdirTemp("", "verif-c06-")
	if err != nil {
		r.FloorMiss("mkdtemp: %v", err)
		return
	}
	defer os.RemoveAll(base)
	n := r.Pick(600, 8000)
	var wg sync.WaitGroup
	sem := make(chan struct{}, 14)
	for i := 0; i < n; i++ {
		wg.Add(1)
		sem <- struct{}{}
		go func(i int) { defer wg.Done(); defer func() { <-sem }(); runHistory(r, i, base) }(i)
	}
	wg.Wait()
	nd := r.Pick(12, 200)
	for i := 0; i < nd; i++ { // the yield hook is process-global: one at a time
		directedConcurrent(r, i, base)
	}
	if r.Counter("directed_concurrent_runs_with_prune") == 0 {
		r.Warn("no directed concurrent run pruned")
	}
	if r.Counter("histories_with_prune_regime_A") == 0 {
		r.FloorMiss("no regime-A history pruned")
	}
}
