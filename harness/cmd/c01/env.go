package main

import (
	"bytes"
	"crypto/sha256"
	"encoding/hex"
	"errors"
	"fmt"
	"math/rand"
	"net"
	"net/netip"
	"os"
	"path/filepath"
	"regexp"
	"sort"
	"strings"
	"sync"
	"time"

	"github.com/cockroachdb/pebble"
	"github.com/ethereum/go-ethereum/core/types"
	"github.com/ethereum/go-ethereum/p2p/enode"
	"github.com/protolambda/zrnt/eth2/beacon/capella"
	"github.com/protolambda/zrnt/eth2/configs"
	"github.com/zen-eth/shisui/beacon"
	"github.com/zen-eth/shisui/history"
	"github.com/zen-eth/shisui/portalwire"
	"github.com/zen-eth/shisui/state"
	"github.com/zen-eth/shisui/storage"
	spebble "github.com/zen-eth/shisui/storage/pebble"
	thistory "github.com/zen-eth/shisui/types/history"
	"github.com/zen-eth/shisui/validation"
	"verifharness/pnode"
)

var networks = []string{"history", "beacon", "state"}

type seedKV struct{ key, val []byte }

var kvRe = regexp.MustCompile(`(?s)content_key["']?\s*:\s*["']?(0x[0-9a-fA-F]*)["']?.{0,40}?(?:content_value\w*|value)["']?\s*:\s*["']?(0x[0-9a-fA-F]+)`)

// loadSeeds scrapes genuine (content key, content value) vectors from the repository's testdata.
func loadSeeds(root string) map[string][]seedKV {
	dirs := map[string][]string{
		"history": {"history/testdata", "validation/testdata", "types/history/testdata"},
		"beacon":  {"beacon/testdata/types", "types/beacon/testdata"},
		"state":   {"state/testdata"},
	}
	out := map[string][]seedKV{}
	for netw, ds := range dirs {
		seen := map[string]bool{}
		for _, d := range ds {
			_ = filepath.Walk(filepath.Join(root, d), func(p string, info os.FileInfo, err error) error {
				if err != nil || info.IsDir() || info.Size() > 8<<20 {
					return nil
				}
				if !(strings.HasSuffix(p, ".json") || strings.HasSuffix(p, ".yaml") || strings.HasSuffix(p, ".yml")) {
					return nil
				}
				b, err := os.ReadFile(p)
				if err != nil {
					return nil
				}
				for _, m := range kvRe.FindAllSubmatch(b, -1) {
					k, err1 := hex.DecodeString(string(m[1][2:]))
					v, err2 := hex.DecodeString(string(m[2][2:]))
					if err1 != nil || err2 != nil || len(k) == 0 || len(v) > 1<<20 {
						continue
					}
					id := string(k) + "|" + string(v[:min(len(v), 64)])
					if seen[id] {
						continue
					}
					seen[id] = true
					out[netw] = append(out[netw], seedKV{k, v})
				}
				return nil
			})
		}
		sort.Slice(out[netw], func(i, j int) bool {
			if c := bytes.Compare(out[netw][i].key, out[netw][j].key); c != 0 {
				return c < 0
			}
			return len(out[netw][i].val) < len(out[netw][j].val)
		})
	}
	return out
}

// stubOracle is the header source of the validators: headers decoded from the genuine history vectors.
type stubOracle struct {
	mu      sync.Mutex
	headers map[string]*types.Header
}

func (o *stubOracle) GetHistoricalSummaries(epoch uint64) (capella.HistoricalSummaries, error) {
	return nil, errors.New("no summaries")
}
func (o *stubOracle) GetBlockHeaderByHash(hash []byte) (*types.Header, error) {
	o.mu.Lock()
	defer o.mu.Unlock()
	if h, ok := o.headers[string(hash)]; ok {
		return h, nil
	}
	return nil, errors.New("unknown header")
}
func (o *stubOracle) GetFinalizedStateRoot() ([]byte, error) { return make([]byte, 32), nil }

type netEnv struct {
	large     [][]byte // keys of stored items that do not fit one packet (served over uTP)
	name      string
	node      *pnode.Node
	store     storage.ContentStorage
	validator validation.Validator
	seeds     []seedKV
	dbs       []*pebble.DB
	proto     portalwire.ProtocolId
	stop      func()
}

type env struct {
	hub   *pnode.Hub
	nets  map[string]*netEnv
	advs  []*pnode.Adversary
	base  string
	peer  *enode.Node // sender identity used for direct handler calls
	paddr *net.UDPAddr
	// sender identities with unusual records: no endpoint at all, IPv6, port 0, no version entry
	senders []*enode.Node
	noEP    *pnode.Adversary // a live discv5 peer whose record carries no endpoint
}

func contentID(key []byte) []byte { d := sha256.Sum256(key); return d[:] }

func newEnv(seed int64, seeds map[string][]seedKV) (*env, error) {
	pnode.Quiet()
	base, err := os.MkdirTemp("", "verif-c01-")
	if err != nil {
		return nil, err
	}
	e := &env{hub: pnode.NewHub(), nets: map[string]*netEnv{}, base: base}
	rng := rand.New(rand.NewSource(seed))
	oracle := &stubOracle{headers: map[string]*types.Header{}}
	for _, s := range seeds["history"] {
		if len(s.key) == 33 && s.key[0] == 0x00 {
			if hwp, err := thistory.DecodeBlockHeaderWithProof(s.val); err == nil {
				if h, err := thistory.DecodeBlockHeader(hwp.Header); err == nil {
					oracle.headers[string(h.Hash().Bytes())] = h
				}
			}
		}
	}
	for i, name := range networks {
		key := pnode.NewKey(rng)
		ne := &netEnv{name: name, seeds: seeds[name]}
		var inner storage.ContentStorage // state: the pebble store below the validating adapter
		var nodeID enode.ID = enode.PubkeyToIDV4(&key.PublicKey)
		open := func(sub string) (*pebble.DB, error) {
			db, err := spebble.NewDB(base, 16, 16, name+"-"+sub)
			if err == nil {
				ne.dbs = append(ne.dbs, db)
			}
			return db, err
		}
		cfg := storage.PortalStorageConfig{StorageCapacityMB: 1000, NodeId: nodeID, NetworkName: name, Spec: configs.Mainnet}
		switch name {
		case "history":
			ne.proto = portalwire.History
			db, err := open("eternal")
			if err != nil {
				return nil, err
			}
			et, err := spebble.NewStorage(cfg, db)
			if err != nil {
				return nil, err
			}
			edb, err := open("ephemeral")
			if err != nil {
				return nil, err
			}
			st, err := history.NewHistoryStorage(et, history.NewEphemeralStorage(cfg, edb))
			if err != nil {
				return nil, err
			}
			ne.store = st
			ne.validator = history.NewHistoryValidator(oracle)
		case "beacon":
			ne.proto = portalwire.Beacon
			db, err := open("db")
			if err != nil {
				return nil, err
			}
			st, err := beacon.NewBeaconStorage(cfg, db)
			if err != nil {
				return nil, err
			}
			ne.store = st
			ne.validator = beacon.NewBeaconValidator(oracle, configs.Mainnet)
		case "state":
			ne.proto = portalwire.State
			db, err := open("db")
			if err != nil {
				return nil, err
			}
			inner, err = spebble.NewStorage(cfg, db)
			if err != nil {
				return nil, err
			}
			ne.store = state.NewStateStorage(inner, db)
			ne.validator = state.NewStateValidator(oracle)
		}
		n, err := e.hub.StartNode(pnode.NodeOpts{
			Key: key, Addr: pnode.Addr4(10, 0, 1, byte(10+i), 9000), Network: ne.proto, Versions: []uint8{0, 1},
			Storage: ne.store, MaxUtp: 1 << 20, RespTimeout: 300 * time.Millisecond, NoStart: true, VersionsTTL: time.Hour,
		})
		if err != nil {
			return nil, fmt.Errorf("start %s node: %w", name, err)
		}
		ne.node = n
		switch name {
		case "history":
			hn := history.NewHistoryNetwork(n.P, ne.validator)
			if err := hn.Start(); err != nil {
				return nil, err
			}
			ne.stop = hn.Stop
		case "state":
			sn := state.NewStateNetwork(n.P, ne.validator)
			if err := sn.Start(); err != nil {
				return nil, err
			}
			ne.stop = sn.Stop
		default:
			if err := n.P.Start(); err != nil {
				return nil, err
			}
			// the beacon network's content loop, as beacon.Network.processContentLoop does it
			// (the real Network needs a syncing light client): validate, then store.
			done := make(chan struct{})
			go func(ne *netEnv) {
				for {
					select {
					case <-done:
						return
					case el := <-n.Queue:
						for i, k := range el.ContentKeys {
							if ne.validator.ValidateContent(k, el.Contents[i]) == nil {
								_ = ne.store.Put(k, contentID(k), el.Contents[i])
							}
						}
					}
				}
			}(ne)
			ne.stop = func() { close(done); n.P.Stop() }
		}
		// peers whose radius covers everything (added the way the AddEnr RPC adds them), 5 / 6 / 7 of them: whatever the
		// node accepts it then gossips to a partly filled target list (nobody listens at their endpoints)
		for k := 0; k < 5+i; k++ {
			x := pnode.SignedNode(pnode.NewKey(rng), pnode.Addr4(10, 0, byte(40+i), byte(1+k), 9400).Addr(), 9400+k, 1, pnode.VersionsEntry([]uint8{0, 1}))
			n.P.AddEnr(x)
		}
		// a few genuine items are stored so that FINDCONTENT/OFFER reach the "found" paths
		for j, s := range ne.seeds {
			if j%3 == 0 {
				func() {
					defer func() { _ = recover() }()
					_ = ne.store.Put(s.key, contentID(s.key), s.val)
				}()
			}
		}
		// synthetic stored items around and above the inline limit (FINDCONTENT must announce a uTP transfer)
		for j, n := range []int{1100, 1175, 1176, 1300, 5000, 70000} {
			key := []byte{map[string]byte{"history": 0x00, "beacon": 0x10, "state": 0x21}[name], byte(j), 0xC0, 0x01}
			key = append(key, bytes.Repeat([]byte{byte(j + 1)}, 29)...)
			val := bytes.Repeat([]byte{byte(0x40 + j)}, n)
			func() {
				defer func() { _ = recover() }()
				var err error
				if inner != nil {
					err = inner.Put(key, contentID(key), val)
				} else {
					err = ne.store.Put(key, contentID(key), val)
				}
				if err == nil {
					ne.large = append(ne.large, key)
				}
			}()
		}
		e.nets[name] = ne
	}
	for i := 0; i < 4; i++ {
		a, err := e.hub.StartAdversary(pnode.AdvOpts{Key: pnode.NewKey(rng), Addr: pnode.Addr4(10, 0, 2, byte(10+i), 9100), Versions: []uint8{0, 1}, RespTimeout: 400 * time.Millisecond, WithUtp: true})
		if err != nil {
			return nil, err
		}
		e.advs = append(e.advs, a)
	}
	pk := pnode.NewKey(rng)
	e.peer = pnode.SignedNode(pk, pnode.Addr4(10, 0, 3, 1, 9200).Addr(), 9200, 1, pnode.VersionsEntry([]uint8{0, 1}))
	e.paddr = &net.UDPAddr{IP: net.IP{10, 0, 3, 1}, Port: 9200}
	e.senders = []*enode.Node{
		e.peer,
		pnode.SignedNode(pnode.NewKey(rng), netip.Addr{}, 0, 1, pnode.VersionsEntry([]uint8{0, 1})),                       // no ip, no udp
		pnode.SignedNode(pnode.NewKey(rng), netip.MustParseAddr("2001:db8::7"), 9300, 2, pnode.VersionsEntry([]uint8{0})), // IPv6, version 0
		pnode.SignedNode(pnode.NewKey(rng), pnode.Addr4(10, 0, 3, 9, 0).Addr(), 0, 3),                                     // ip but no udp port, no version entry
	}
	e.noEP, err = e.hub.StartAdversary(pnode.AdvOpts{Key: pnode.NewKey(rng), Addr: pnode.Addr4(10, 0, 2, 99, 9199), Versions: []uint8{0, 1}, RespTimeout: 400 * time.Millisecond, NoEndpoint: true})
	if err != nil {
		return nil, err
	}
	return e, nil
}

func (e *env) close() {
	for _, a := range e.advs {
		a.Stop()
	}
	if e.noEP != nil {
		e.noEP.Stop()
	}
	for _, ne := range e.nets {
		ne.stop()
		ne.node.Utp.Stop()
		ne.node.Disc.Close()
	}
	os.RemoveAll(e.base)
}
