package main

import (
	"context"
	"crypto/sha256"
	"encoding/binary"
	"encoding/hex"
	"encoding/json"
	"fmt"
	"github.com/ethereum/go-ethereum/metrics"
	"math/rand"
	"net"
	"os"
	"runtime"
	"runtime/debug"
	"strconv"
	"strings"
	"sync"
	"sync/atomic"
	"time"

	bitfield "github.com/OffchainLabs/go-bitfield"
	"github.com/ethereum/go-ethereum/p2p/enode"
	"github.com/zen-eth/shisui/portalwire"
	"verifharness/lib"
	"verifharness/pnode"
)

type child struct {
	env      *env
	seed     int64
	prog     *os.File
	progMu   sync.Mutex
	res      childResult
	resMu    sync.Mutex
	distinct []byte
	resPath  string
	lastTick atomic.Int64
	gens     map[string]*gen
	sigSeen  map[string]int
}

func (c *child) rng(kind, netw string, idx int) *rand.Rand {
	h := sha256.New()
	var b [16]byte
	binary.LittleEndian.PutUint64(b[:8], uint64(c.seed))
	binary.LittleEndian.PutUint64(b[8:], uint64(idx))
	h.Write(b[:])
	h.Write([]byte(kind + "/" + netw))
	s := h.Sum(nil)
	return rand.New(rand.NewSource(int64(binary.LittleEndian.Uint64(s[:8]))))
}

func (c *child) logCase(idx int, kind, netw string, in []byte) {
	c.progMu.Lock()
	fmt.Fprintf(c.prog, "CASE %d %s %s %s\n", idx, kind, netw, hexShort(in))
	c.progMu.Unlock()
}

func (c *child) count(name string, n int) {
	c.resMu.Lock()
	c.res.Counters[name] += int64(n)
	c.resMu.Unlock()
}

func (c *child) done(kind, netw string, in []byte) {
	h := sha256.Sum256(append([]byte(kind+"/"+netw+"/"), in...))
	c.resMu.Lock()
	c.res.Done++
	c.distinct = append(c.distinct, h[:8]...)
	if c.res.Done%9973 == 17 && len(c.res.Samples) < 8 {
		c.res.Samples = append(c.res.Samples, map[string]any{"entry_point": kind, "network": netw, "input_hex": lib.HexShort(in, 96)})
	}
	c.resMu.Unlock()
	c.lastTick.Store(time.Now().UnixNano())
}

func (c *child) violation(sig, what string, idx int, kind, netw string, in []byte) {
	c.resMu.Lock()
	defer c.resMu.Unlock()
	c.sigSeen[sig]++
	if c.sigSeen[sig] > 3 { // keep a few witnesses per signature
		c.res.Counters["recovered_panics_or_malformed_total"]++
		return
	}
	c.res.Counters["recovered_panics_or_malformed_total"]++
	c.res.Violations = append(c.res.Violations, childViolation{Sig: sig, What: what, Case: idx, Kind: kind, Net: netw, Input: hexShort(in)})
}

func (c *child) flush() {
	c.resMu.Lock()
	b, _ := json.Marshal(&c.res)
	d := append([]byte(nil), c.distinct...)
	c.resMu.Unlock()
	_ = os.WriteFile(c.resPath+".json.tmp", b, 0o644)
	_ = os.Rename(c.resPath+".json.tmp", c.resPath+".json")
	_ = os.WriteFile(c.resPath+".distinct", d, 0o644)
}

// guard runs f on the calling goroutine and converts a panic into (site, message).
func guard(f func()) (site, msg string, panicked bool) {
	defer func() {
		if e := recover(); e != nil {
			panicked = true
			msg = fmt.Sprint(e)
			site = topShisuiFrame(string(debug.Stack()))
		}
	}()
	f()
	return
}

func topShisuiFrame(stack string) string {
	lines := strings.Split(stack, "\n")
	seenPanic := false
	for _, l := range lines {
		if strings.HasPrefix(l, "panic(") {
			seenPanic = true
			continue
		}
		if !seenPanic || strings.HasPrefix(l, "\t") {
			continue
		}
		if strings.Contains(l, "zen-eth/shisui/") {
			f := l
			if i := strings.LastIndex(f, "("); i > 0 {
				f = f[:i]
			}
			return strings.TrimPrefix(f, "github.com/zen-eth/shisui/")
		}
	}
	for _, l := range lines { // no shisui frame: first non-runtime frame after panic
		if strings.HasPrefix(l, "\t") || strings.HasPrefix(l, "runtime") || strings.HasPrefix(l, "panic(") || strings.HasPrefix(l, "goroutine") || l == "" {
			continue
		}
		if strings.HasPrefix(l, "main.") || strings.HasPrefix(l, "verifharness") {
			continue
		}
		if i := strings.LastIndex(l, "("); i > 0 {
			return l[:i]
		}
	}
	return "unknown"
}

func msgClass(m string) string {
	switch {
	case strings.Contains(m, "index out of range"):
		return "index-out-of-range"
	case strings.Contains(m, "slice bounds out of range"):
		return "slice-bounds"
	case strings.Contains(m, "nil pointer"):
		return "nil-pointer"
	case strings.Contains(m, "closed channel"):
		return "closed-channel"
	case strings.Contains(m, "interface conversion"):
		return "interface-conversion"
	case strings.Contains(m, "makeslice") || strings.Contains(m, "out of memory"):
		return "allocation"
	}
	if len(m) > 40 {
		m = m[:40]
	}
	return m
}

// checkReply decides whether a non-empty reply to request req is well formed.
func checkReply(req, reply []byte) string {
	if len(reply) == 0 {
		return ""
	}
	if len(req) == 0 {
		return "non-empty reply to an empty request"
	}
	want := map[byte]byte{portalwire.PING: portalwire.PONG, portalwire.FINDNODES: portalwire.NODES, portalwire.FINDCONTENT: portalwire.CONTENT, portalwire.OFFER: portalwire.ACCEPT}
	w, ok := want[req[0]]
	if !ok {
		return fmt.Sprintf("non-empty reply to unknown request code %#x", req[0])
	}
	if reply[0] != w {
		return fmt.Sprintf("reply code %#x to request code %#x", reply[0], req[0])
	}
	body := reply[1:]
	switch w {
	case portalwire.PONG:
		if err := (&portalwire.Pong{}).UnmarshalSSZ(body); err != nil {
			return "PONG does not decode: " + err.Error()
		}
	case portalwire.NODES:
		if err := (&portalwire.Nodes{}).UnmarshalSSZ(body); err != nil {
			return "NODES does not decode: " + err.Error()
		}
	case portalwire.CONTENT:
		if len(body) == 0 {
			return "CONTENT without selector"
		}
		var err error
		switch body[0] {
		case portalwire.ContentConnIdSelector:
			err = (&portalwire.ConnectionId{}).UnmarshalSSZ(body[1:])
		case portalwire.ContentRawSelector:
			err = (&portalwire.Content{}).UnmarshalSSZ(body[1:])
		case portalwire.ContentEnrsSelector:
			err = (&portalwire.Enrs{}).UnmarshalSSZ(body[1:])
		default:
			return fmt.Sprintf("CONTENT with unknown selector %#x", body[0])
		}
		if err != nil {
			return "CONTENT does not decode: " + err.Error()
		}
	case portalwire.ACCEPT:
		e1 := (&portalwire.AcceptV1{}).UnmarshalSSZ(body)
		e0 := (&portalwire.Accept{}).UnmarshalSSZ(body)
		if e1 != nil && e0 != nil {
			return "ACCEPT decodes in neither encoding: " + e1.Error()
		}
	}
	return ""
}

func childMain(tier string, from, to int, progPath, resPath string) {
	debug.SetGCPercent(200)
	if lib.MetricsWanted(tier) {
		metrics.Enable() // before any node exists, as cmd/shisui does with --metrics
	}
	seed := int64(1)
	if s := os.Getenv("VERIF_SEED"); s != "" {
		if v, err := strconv.ParseInt(s, 10, 64); err == nil {
			seed = v
		}
	}
	root := os.Getenv("VERIF_REPO_ROOT")
	if root == "" {
		root = "/repo"
	}
	seeds := loadSeeds(root)
	seeds["beacon"] = append(seeds["beacon"], synthBeaconSeeds(seeds["beacon"])...)
	e, err := newEnv(seed, seeds)
	if err != nil {
		fmt.Fprintf(os.Stderr, "HARNESS-SETUP-FAILED: %v\n", err)
		os.Exit(5)
	}
	pf, err := os.Create(progPath)
	if err != nil {
		os.Exit(5)
	}
	c := &child{env: e, seed: seed, prog: pf, resPath: resPath, gens: map[string]*gen{}, sigSeen: map[string]int{}}
	c.res.Counters = map[string]int64{}
	for _, n := range networks {
		c.gens[n] = newGen(seeds[n], c.rng("gen", n, 0))
		c.count("seed_vectors_"+n, len(seeds[n]))
	}
	c.lastTick.Store(time.Now().UnixNano())
	go func() { // wedge watchdog
		for {
			time.Sleep(2 * time.Second)
			if time.Since(time.Unix(0, c.lastTick.Load())) > 45*time.Second {
				buf := make([]byte, 4<<20)
				n := runtime.Stack(buf, true)
				os.Stderr.Write(buf[:n])
				c.flush()
				os.Exit(4)
			}
		}
	}()
	segs, _ := caseList(tier == "quick" || os.Getenv("VERIF_C01_RACE") == "1")
	for _, s := range segs {
		lo, hi := max(from, s.start), min(to, s.start+s.Count)
		if lo >= hi {
			continue
		}
		t0 := time.Now()
		c.runSegment(s, lo, hi)
		c.count("seg_ms_"+s.Kind, int(time.Since(t0).Milliseconds()))
		c.flush()
	}
	c.flush()
	os.Exit(0)
}

func (c *child) runSegment(s segment, lo, hi int) {
	ne := c.env.nets[s.Net]
	g := c.gens[s.Net]
	p := ne.node.P
	switch {
	case s.Kind == "talkreq":
		for i := lo; i < hi; i++ {
			local := i - s.start
			rng := c.rng(s.Kind, s.Net, local)
			msg := g.request(rng, local)
			c.logCase(i, s.Kind, s.Net, msg)
			var reply []byte
			sender := c.env.senders[local%len(c.env.senders)]
			site, m, pan := guard(func() { reply = p.VerifHandleTalkRequest(sender, c.env.paddr, msg) })
			if pan {
				c.violation("panic:"+site+":"+msgClass(m), fmt.Sprintf("TALKREQ handler (%s) panicked: %s at %s (sender record: %s)", s.Net, m, site, sender.String()), i, s.Kind, s.Net, msg)
			} else if bad := checkReply(msg, reply); bad != "" {
				c.violation("malformed-reply:"+strings.SplitN(bad, ":", 2)[0], fmt.Sprintf("reply to TALKREQ is not well-formed: %s", bad), i, s.Kind, s.Net, msg)
			}
			if len(reply) > 0 {
				c.count("talkreq_replied_"+s.Net, 1)
				c.count(fmt.Sprintf("reply_code_%#x", reply[0]), 1)
			} else {
				c.count("talkreq_empty_reply_"+s.Net, 1)
			}
			c.done(s.Kind, s.Net, msg)
			if local%500 == 499 {
				time.Sleep(20 * time.Millisecond) // let accepted-offer goroutines start (and possibly crash) near their cause
			}
		}
	case s.Kind == "pong" || s.Kind == "nodes" || s.Kind == "content" || s.Kind == "offerresp":
		target := c.env.advs[0].Self()
		for i := lo; i < hi; i++ {
			local := i - s.start
			rng := c.rng(s.Kind, s.Net, local)
			resp := g.response(rng, s.Kind, local)
			c.logCase(i, s.Kind, s.Net, resp)
			var errRet error
			site, m, pan := guard(func() {
				switch s.Kind {
				case "pong":
					_, _, errRet = p.VerifProcessPong(target, resp)
				case "nodes":
					_, errRet = p.VerifProcessNodes(target, resp, []uint{256, 255, 254, 0})
				case "content":
					_, _, errRet = p.VerifProcessContent(target, resp)
				case "offerresp":
					nk := 1 + rng.Intn(3)
					var entries []*portalwire.ContentEntry
					for k := 0; k < nk; k++ {
						entries = append(entries, &portalwire.ContentEntry{ContentKey: g.someKey(rng), Content: randBytes(rng, 40)})
					}
					req := &portalwire.OfferRequest{Kind: portalwire.TransientOfferRequestKind, Request: &portalwire.TransientOfferRequest{Contents: entries}}
					_, errRet = p.VerifProcessOffer(target, resp, req, &portalwire.NoPermit{})
				}
			})
			if pan {
				c.violation("panic:"+site+":"+msgClass(m), fmt.Sprintf("%s response processor (%s) panicked: %s at %s", s.Kind, s.Net, m, site), i, s.Kind, s.Net, resp)
			}
			if errRet == nil {
				c.count("response_accepted_"+s.Kind, 1)
			} else {
				c.count("response_error_"+s.Kind, 1)
			}
			c.done(s.Kind, s.Net, resp)
		}
	case s.Kind == "offered":
		for i := lo; i < hi; i++ {
			local := i - s.start
			rng := c.rng(s.Kind, s.Net, local)
			nk := []int{0, 1, 2, 3, 8, 64}[rng.Intn(6)]
			var keys [][]byte
			for k := 0; k < nk; k++ {
				keys = append(keys, g.someKey(rng))
			}
			body := streamBody(rng, nk)
			if local%7 == 0 && len(g.seeds) > 0 { // genuine item(s): reaches validation and Put through the content queue
				sd := g.seeds[rng.Intn(len(g.seeds))]
				keys = [][]byte{sd.key}
				val := sd.val
				if rng.Intn(2) == 0 {
					val = mutate(rng, val)
				}
				body = portalwire.VerifEncodeContents([][]byte{val})
			}
			c.logCase(i, s.Kind, s.Net, body)
			site, m, pan := guard(func() { _ = p.VerifHandleOfferedContents(c.env.peer.ID(), keys, body) })
			if pan {
				c.violation("panic:"+site+":"+msgClass(m), fmt.Sprintf("handleOfferedContents (%s) panicked: %s at %s", s.Net, m, site), i, s.Kind, s.Net, body)
			}
			// the same bytes as the body of a stream served in answer to the node's own FINDCONTENT (read to its end, then
			// unframed according to the version shared with the serving peer); the real transfer is the served-stream segment
			from := c.env.advs[local%len(c.env.advs)].Self()
			site, m, pan = guard(func() { _, _ = p.VerifDecodeUtpContent(from, body) })
			if pan {
				c.violation("panic:"+site+":"+msgClass(m), fmt.Sprintf("decodeUtpContent (%s) panicked: %s at %s", s.Net, m, site), i, s.Kind, s.Net, body)
			}
			c.done(s.Kind, s.Net, body)
			if local%200 == 199 {
				time.Sleep(30 * time.Millisecond) // let the network's content loop validate what was queued
			}
		}
		time.Sleep(200 * time.Millisecond)
	case s.Kind == "validate":
		contents := func(rng *rand.Rand) []byte {
			switch rng.Intn(6) {
			case 0:
				return []byte{}
			case 1:
				return randBytes(rng, 1+rng.Intn(3))
			case 2:
				return randBytes(rng, 100+rng.Intn(900))
			}
			if len(g.seeds) == 0 {
				return randBytes(rng, 64)
			}
			v := g.seeds[rng.Intn(len(g.seeds))].val
			if rng.Intn(4) != 0 {
				v = mutate(rng, v)
			}
			return v
		}
		for i := lo; i < hi; i++ {
			local := i - s.start
			rng := c.rng(s.Kind, s.Net, local)
			var key, val []byte
			switch {
			case local < 256*len(keyLens):
				key, val = matrixKey(local, rng), contents(rng)
			case s.Net == "history" && local%5 == 1:
				key, val = craftedHeaderItem(rng)
				c.count("validate_crafted_consistent_header_items", 1)
			case len(g.seeds) > 0 && local%2 == 0:
				sd := g.seeds[rng.Intn(len(g.seeds))]
				key, val = sd.key, sd.val
				switch rng.Intn(4) {
				case 0:
					val = mutate(rng, val)
				case 1:
					key = mutate(rng, key)
				case 2:
					key, val = mutate(rng, key), mutate(rng, val)
				}
			default:
				key, val = g.someKey(rng), contents(rng)
			}
			in := append(append(append([]byte{}, key...), 0xAA, 0x55, 0xAA), val[:min(len(val), 1500)]...)
			c.logCase(i, s.Kind, s.Net, in)
			var verr error = fmt.Errorf("not run")
			site, m, pan := guard(func() { verr = ne.validator.ValidateContent(key, val) })
			if pan {
				c.violation("panic:"+site+":"+msgClass(m), fmt.Sprintf("%s ValidateContent panicked: %s at %s (key %s)", s.Net, m, site, lib.HexShort(key, 40)), i, s.Kind, s.Net, in)
			} else if verr == nil {
				c.count("validated_ok_"+s.Net, 1)
				site, m, pan := guard(func() { _ = ne.store.Put(key, contentID(key), val) })
				if pan {
					c.violation("panic:"+site+":"+msgClass(m), fmt.Sprintf("%s ContentStorage.Put panicked after successful validation: %s at %s", s.Net, m, site), i, s.Kind, s.Net, in)
				}
			} else {
				c.count("validate_rejected_"+s.Net, 1)
			}
			c.done(s.Kind, s.Net, in)
		}
	case s.Kind == "get":
		for i := lo; i < hi; i++ {
			local := i - s.start
			rng := c.rng(s.Kind, s.Net, local)
			var key []byte
			if local < 256*len(keyLens) {
				key = matrixKey(local, rng)
			} else {
				key = g.someKey(rng)
			}
			c.logCase(i, s.Kind, s.Net, key)
			var gerr error
			site, m, pan := guard(func() { _, gerr = ne.store.Get(key, contentID(key)) })
			if pan {
				c.violation("panic:"+site+":"+msgClass(m), fmt.Sprintf("%s ContentStorage.Get panicked for a peer-chosen key: %s at %s (key %s)", s.Net, m, site, lib.HexShort(key, 40)), i, s.Kind, s.Net, key)
			}
			if gerr == nil {
				c.count("get_found_"+s.Net, 1)
			}
			c.done(s.Kind, s.Net, key)
		}
	case s.Kind == "sequence":
		// Stateful order: the entry points above in a seed-determined random order, concentrated on the genuine
		// vectors and their numeric neighbours (an 8-byte field of the key moved by a few units), so that what
		// an earlier request left behind (cached items, locks, counters) is what the next request meets.
		ask := func(i int, code byte, body []byte) {
			msg := append([]byte{code}, body...)
			var reply []byte
			site, m, pan := guard(func() { reply = p.VerifHandleTalkRequest(c.env.peer, c.env.paddr, msg) })
			if pan {
				c.violation("panic:"+site+":"+msgClass(m), fmt.Sprintf("TALKREQ handler (%s) panicked in a request sequence: %s at %s", s.Net, m, site), i, s.Kind, s.Net, msg)
			} else if bad := checkReply(msg, reply); bad != "" {
				c.violation("malformed-reply:"+strings.SplitN(bad, ":", 2)[0], fmt.Sprintf("reply to TALKREQ is not well-formed: %s", bad), i, s.Kind, s.Net, msg)
			}
		}
		store := func(i int, key, val []byte) {
			var verr error = fmt.Errorf("not run")
			site, m, pan := guard(func() { verr = ne.validator.ValidateContent(key, val) })
			if pan {
				c.violation("panic:"+site+":"+msgClass(m), fmt.Sprintf("%s ValidateContent panicked in a request sequence: %s at %s (key %s)", s.Net, m, site, lib.HexShort(key, 40)), i, s.Kind, s.Net, key)
				return
			}
			if verr != nil {
				return
			}
			c.count("sequence_stored_"+s.Net, 1)
			site, m, pan = guard(func() { _ = ne.store.Put(key, contentID(key), val) })
			if pan {
				c.violation("panic:"+site+":"+msgClass(m), fmt.Sprintf("%s ContentStorage.Put panicked in a request sequence: %s at %s", s.Net, m, site), i, s.Kind, s.Net, key)
			}
		}
		for i := lo; i < hi; i++ {
			local := i - s.start
			rng := c.rng(s.Kind, s.Net, local)
			if len(g.seeds) == 0 {
				c.done(s.Kind, s.Net, []byte{byte(i)})
				continue
			}
			sd := g.seeds[rng.Intn(len(g.seeds))]
			key := sd.key
			if rng.Intn(2) == 0 {
				key = nearKey(rng, sd.key)
			}
			op := rng.Intn(6)
			in := append([]byte{byte(op)}, key...)
			c.logCase(i, s.Kind, s.Net, in)
			switch op {
			case 0: // the genuine item is offered and stored
				store(i, sd.key, sd.val)
			case 1: // the genuine content under a neighbouring key
				store(i, key, sd.val)
			case 2: // adapter lookup
				var gerr error
				site, m, pan := guard(func() { _, gerr = ne.store.Get(key, contentID(key)) })
				if pan {
					c.violation("panic:"+site+":"+msgClass(m), fmt.Sprintf("%s ContentStorage.Get panicked in a request sequence: %s at %s (key %s)", s.Net, m, site, lib.HexShort(key, 40)), i, s.Kind, s.Net, key)
				}
				if gerr == nil {
					c.count("sequence_get_found_"+s.Net, 1)
				}
			case 3: // FINDCONTENT
				ask(i, portalwire.FINDCONTENT, append(binary.LittleEndian.AppendUint32(nil, 4), key...))
			case 4: // OFFER
				ask(i, portalwire.OFFER, append(binary.LittleEndian.AppendUint32(nil, 4), sszListOfBytes([][]byte{key, sd.key})...))
			case 5: // an accepted stream that carries the genuine item under this key
				body := portalwire.VerifEncodeContents([][]byte{sd.val})
				site, m, pan := guard(func() { _ = p.VerifHandleOfferedContents(c.env.peer.ID(), [][]byte{key}, body) })
				if pan {
					c.violation("panic:"+site+":"+msgClass(m), fmt.Sprintf("handleOfferedContents (%s) panicked in a request sequence: %s at %s", s.Net, m, site), i, s.Kind, s.Net, body)
				}
			}
			c.count(fmt.Sprintf("sequence_op_%d", op), 1)
			c.done(s.Kind, s.Net, in)
		}
		c.queueLiveness(s)
	case s.Kind == "startup":
		// Requests that arrive while a node is starting and while it is stopping: the discv5 listener is shared and
		// already serving when PortalProtocol.Start runs, so peers that know the endpoint can reach the sub-protocol's
		// handler at any point of its start-up and shutdown. Four peers with established sessions send well-formed
		// PINGs and FINDNODES back to back while a fresh node is started and then stopped.
		rngP := c.rng("startup-payload", s.Net, 0)
		b, _ := (&portalwire.Ping{EnrSeq: 1, PayloadType: 0, Payload: validPayload(rngP, 0)}).MarshalSSZ()
		msgs := [][]byte{append([]byte{portalwire.PING}, b...), findNodesMsg(rngP), {portalwire.FINDCONTENT, 4, 0, 0, 0, 0x00, 1, 2, 3}}
		for i := lo; i < hi; i++ {
			local := i - s.start
			rng := c.rng(s.Kind, s.Net, local)
			c.logCase(i, s.Kind, s.Net, []byte{byte(local)})
			n, err := c.env.hub.StartNode(pnode.NodeOpts{Key: pnode.NewKey(rng), Addr: pnode.Addr4(10, 0, 9, byte(1+local%250), uint16(9000+local/250)), Network: ne.proto, Versions: []uint8{0, 1},
				MaxUtp: 10, RespTimeout: 300 * time.Millisecond, NoStart: true, VersionsTTL: time.Hour})
			if err != nil {
				c.count("startup_node_setup_failed", 1)
				c.done(s.Kind, s.Net, []byte{byte(local)})
				continue
			}
			for _, adv := range c.env.advs { // sessions first: an unknown sub-protocol is answered with an empty TALKRESP
				_, _ = adv.Talk(n.Self(), string(ne.proto), msgs[0])
			}
			stop := make(chan struct{})
			var fwg sync.WaitGroup
			var sent atomic.Int64
			for ai, adv := range c.env.advs {
				fwg.Add(1)
				go func(ai int, adv *pnode.Adversary) {
					defer fwg.Done()
					for k := 0; ; k++ {
						select {
						case <-stop:
							return
						default:
						}
						_, _ = adv.Talk(n.Self(), string(ne.proto), msgs[(ai+k)%len(msgs)])
						sent.Add(1)
					}
				}(ai, adv)
			}
			time.Sleep(time.Duration(rng.Intn(800)) * time.Microsecond)
			startErr := n.P.Start()
			time.Sleep(time.Duration(200+rng.Intn(1500)) * time.Microsecond)
			if startErr == nil {
				n.P.Stop()
			}
			time.Sleep(300 * time.Microsecond)
			close(stop)
			fwg.Wait()
			n.Utp.Stop()
			n.Disc.Close()
			c.count("startup_requests_sent_during_start_and_stop", int(sent.Load()))
			c.count("startup_nodes_started_and_stopped_under_traffic", 1)
			c.done(s.Kind, s.Net, []byte{byte(local), byte(local >> 8)})
		}
	case s.Kind == "late-answers":
		// Well-formed answers to the node's own FINDCONTENT that arrive late, but inside the response timeout: one peer
		// supplies the content, the others answer with (empty) ENR lists after delays spread over the whole timeout, i.e.
		// before and long after the lookup has its result. The node uses discv5's default response timeout (700 ms), as in
		// production. A worker that outlives its lookup and then reports its answer takes the process down.
		n, err := c.env.hub.StartNode(pnode.NodeOpts{Key: pnode.NewKey(c.rng(s.Kind, s.Net, -1)), Addr: pnode.Addr4(10, 0, 8, 1, 9000), Network: ne.proto, Versions: []uint8{0, 1},
			MaxUtp: 10, RespTimeout: 700 * time.Millisecond, VersionsTTL: time.Hour})
		if err != nil {
			c.count("late_answers_node_setup_failed", 1)
			for i := lo; i < hi; i++ {
				c.done(s.Kind, s.Net, []byte{byte(i)})
			}
			break
		}
		delays := []int{0, 100, 260, 350, 450, 600, 670}
		var asked atomic.Int64
		var curLocal atomic.Int64
		var curContent atomic.Pointer[[]byte]
		var lateDelivered atomic.Int64
		emptyEnrs := []byte{portalwire.CONTENT, portalwire.ContentEnrsSelector, 4, 0, 0, 0}
		for _, adv := range c.env.advs {
			adv.OnTalk(string(ne.proto), func(from *enode.Node, addr *net.UDPAddr, msg []byte) []byte {
				if len(msg) == 0 || msg[0] != portalwire.FINDCONTENT {
					if len(msg) > 0 && msg[0] == portalwire.PING {
						pb, _ := (&portalwire.Pong{EnrSeq: 1, PayloadType: 0, Payload: validPayload(rand.New(rand.NewSource(1)), 0)}).MarshalSSZ()
						return append([]byte{portalwire.PONG}, pb...)
					}
					return nil
				}
				local := int(curLocal.Load())
				k := int(asked.Add(1))
				if k == 1 {
					if local%3 == 1 {
						time.Sleep(120 * time.Millisecond)
					}
					if b := curContent.Load(); b != nil {
						return append([]byte{portalwire.CONTENT, portalwire.ContentRawSelector}, *b...)
					}
					return emptyEnrs
				}
				d := delays[(local+k)%len(delays)]
				time.Sleep(time.Duration(d) * time.Millisecond)
				if d >= 260 {
					lateDelivered.Add(1)
				}
				return emptyEnrs
			})
			n.P.VerifTable().VerifAddFound(adv.Self(), true)
		}
		for i := lo; i < hi; i++ {
			local := i - s.start
			rng := c.rng(s.Kind, s.Net, local)
			key := randBytes(rng, 33)
			key[0] = map[string]byte{"history": 0x00, "beacon": 0x10, "state": 0x20}[s.Net]
			content := randBytes(rng, 1+rng.Intn(200))
			c.logCase(i, s.Kind, s.Net, key)
			asked.Store(0)
			curLocal.Store(int64(local))
			curContent.Store(&content)
			var got []byte
			var lerr error
			site, m, pan := guard(func() {
				if local%2 == 0 {
					got, _, lerr = n.P.ContentLookup(key, contentID(key))
				} else {
					var tr *portalwire.TraceContentResult
					tr, lerr = n.P.TraceContentLookup(key, contentID(key))
					if tr != nil {
						got = []byte(tr.Content)
					}
				}
			})
			if pan {
				c.violation("panic:"+site+":"+msgClass(m), fmt.Sprintf("content lookup panicked while well-formed answers were arriving late: %s at %s", m, site), i, s.Kind, s.Net, key)
			}
			if lerr == nil && len(got) > 0 {
				c.count("late_answers_lookups_with_content", 1)
			} else {
				c.count("late_answers_lookups_without_content", 1)
			}
			// the late answers of this lookup arrive while the case is still the logged one
			time.Sleep(750 * time.Millisecond)
			c.done(s.Kind, s.Net, key)
		}
		c.count("late_answers_delivered_after_260ms_or_more", int(lateDelivered.Load()))
		for _, adv := range c.env.advs {
			adv.OnTalk(string(ne.proto), func(*enode.Node, *net.UDPAddr, []byte) []byte { return nil })
		}
		n.Stop()
	case s.Kind == "wire-talkreq" || s.Kind == "wire-utp":
		c.wireParallel(s, lo, hi, func(i, local int, adv *pnode.Adversary, rng *rand.Rand) []byte {
			var msg []byte
			proto := string(ne.proto)
			if s.Kind == "wire-utp" {
				msg = utpPacket(rng)
				proto = portalwire.UTP_STRING
			} else {
				msg = g.request(rng, local)
			}
			if len(msg) > 1100 { // a discv5 packet cannot carry more; larger inputs are covered by the direct calls
				msg = msg[:1100]
			}
			c.logCase(i, s.Kind, s.Net, msg)
			reply, err := adv.Talk(ne.node.Self(), proto, msg)
			if err != nil {
				c.count("wire_no_response", 1)
			} else if s.Kind == "wire-talkreq" {
				if bad := checkReply(msg, reply); bad != "" {
					c.violation("malformed-reply:"+strings.SplitN(bad, ":", 2)[0], "wire reply is not well-formed: "+bad, i, s.Kind, s.Net, msg)
				}
				if len(reply) > 0 {
					c.count("wire_replied", 1)
				}
			}
			return msg
		})
		c.liveness(s)
	case strings.HasPrefix(s.Kind, "wire-resp-"):
		kind := strings.TrimPrefix(s.Kind, "wire-resp-")
		// one adversary answers the node's own requests with hostile bytes, one case at a time
		adv := c.env.advs[0]
		var cur atomic.Pointer[[]byte]
		adv.OnTalk(string(ne.proto), func(from *enode.Node, addr *net.UDPAddr, msg []byte) []byte {
			if b := cur.Load(); b != nil {
				return *b
			}
			return nil
		})
		c.drain(s)
		for i := lo; i < hi; i++ {
			local := i - s.start
			rng := c.rng(s.Kind, s.Net, local)
			resp := g.response(rng, kind, local)
			if len(resp) > 1100 {
				resp = resp[:1100]
			}
			if len(resp) == 4 && resp[0] == portalwire.CONTENT && resp[1] == portalwire.ContentConnIdSelector {
				resp = append(resp, 0) // a well-formed connection id starts a 15 s dial: those run in the slow group
			}
			c.logCase(i, s.Kind, s.Net, resp)
			cur.Store(&resp)
			site, m, pan := guard(func() {
				switch kind {
				case "pong":
					_, _ = p.VerifPing(adv.Self())
				case "nodes":
					_, _ = p.VerifFindNodes(adv.Self(), []uint{256, 255})
				case "content":
					_, _, _ = p.VerifFindContent(adv.Self(), g.someKey(rng))
				case "offerresp":
					req := &portalwire.OfferRequest{Kind: portalwire.TransientOfferRequestKind, Request: &portalwire.TransientOfferRequest{Contents: []*portalwire.ContentEntry{{ContentKey: []byte{0x00, 1, 2, 3}, Content: []byte("x")}}}}
					_, _ = p.VerifOffer(adv.Self(), req, &portalwire.NoPermit{})
				}
			})
			if pan {
				c.violation("panic:"+site+":"+msgClass(m), fmt.Sprintf("node's own %s request panicked on a hostile TALKRESP: %s at %s", kind, m, site), i, s.Kind, s.Net, resp)
			}
			c.count("wire_responses_delivered_"+kind, 1)
			c.done(s.Kind, s.Net, resp)
		}
		cur.Store(nil)
		c.liveness(s)
	case s.Kind == "api":
		// The JSON-RPC methods of the sub-protocol, called as the RPC server calls them. What they are handed by the
		// local user is well-formed (the statement is about what a PEER can deliver; content keys are opaque bytes and come from
		// the key generators); what comes back from the peer they talk to is hostile (the same answer generator as the
		// wire-resp segments). Every call has to return, without a panic.
		api := portalwire.NewPortalAPI(p)
		adv := c.env.advs[0]
		var cur atomic.Pointer[[]byte]
		adv.OnTalk(string(ne.proto), func(from *enode.Node, addr *net.UDPAddr, msg []byte) []byte {
			if b := cur.Load(); b != nil {
				return *b
			}
			return nil
		})
		advEnr := adv.Self().String()
		hexs := func(b []byte) string { return "0x" + hex.EncodeToString(b) }
		c.drain(s)
		for i := lo; i < hi; i++ {
			local := i - s.start
			rng := c.rng(s.Kind, s.Net, local)
			method := local % 16
			kind := []string{"offerresp", "offerresp", "content", "nodes", "pong", "content", "nodes", "content"}[method%8]
			resp := g.response(rng, kind, local)
			if len(resp) > 1100 {
				resp = resp[:1100]
			}
			if len(resp) == 4 && resp[0] == portalwire.CONTENT && resp[1] == portalwire.ContentConnIdSelector {
				resp = append(resp, 0)
			}
			key := g.someKey(rng)
			if len(key) > 200 {
				key = key[:200]
			}
			c.logCase(i, s.Kind, s.Net, append([]byte{byte(method)}, resp...))
			cur.Store(&resp)
			site, m, pan := guard(func() {
				switch method {
				case 0:
					_, _ = api.TraceOffer(advEnr, hexs([]byte{0x00, byte(local), 2, 3}), hexs([]byte("trace-offer-value")))
				case 1:
					_, _ = api.Offer(advEnr, [][2]string{{hexs([]byte{0x00, byte(local), 9}), hexs([]byte("v1"))}, {hexs(key), hexs([]byte("v2"))}})
				case 2:
					_, _ = api.FindContent(advEnr, hexs(key))
				case 3:
					_, _ = api.FindNodes(advEnr, []uint{uint(rng.Intn(300)), 256, 0})
				case 4:
					var pt *uint16
					var pl *string
					if rng.Intn(2) == 0 {
						t := uint16([]int{0, 1, 2, 3, 65535}[rng.Intn(5)])
						v := hexs(validPayload(rng, t))
						if rng.Intn(3) == 0 {
							v = `{"clientInfo":"","dataRadius":"0x` + strings.Repeat("ff", 32) + `","capabilities":[0,1]}`
						}
						pt, pl = &t, &v
					}
					_, _ = api.Ping(advEnr, pt, pl)
				case 5:
					_, _ = api.RecursiveFindContent(hexs(key))
				case 6:
					_, _ = api.RecursiveFindNodes(hex.EncodeToString(randBytes(rng, 32)))
				case 7:
					_, _ = api.TraceRecursiveFindContent(hexs(key))
				case 8:
					_, _ = api.AddEnr(advEnr)
				case 9:
					_ = api.AddEnrs([]string{advEnr, c.env.advs[1].Self().String(), advEnr})
				case 10:
					_, _ = api.GetEnr([]string{adv.ID().String(), hex.EncodeToString(randBytes(rng, 32))}[rng.Intn(2)])
				case 11:
					_, _ = api.LookupEnr(hex.EncodeToString(randBytes(rng, 32)))
				case 12:
					_, _ = api.Store(hexs(key), hexs(randBytes(rng, rng.Intn(200))))
				case 13:
					_, _ = api.LocalContent(hexs(key))
				case 14:
					_, _ = api.Gossip(hexs(key), hexs(randBytes(rng, 1+rng.Intn(100))))
				case 15:
					_, _ = api.DeleteEnr(hex.EncodeToString(randBytes(rng, 32)))
					_ = api.NodeInfo()
					_ = api.RoutingTableInfo()
				}
			})
			if pan {
				c.violation("panic:"+site+":"+msgClass(m), fmt.Sprintf("RPC method #%d (%s) panicked on a hostile peer answer or argument: %s at %s", method, s.Net, m, site), i, s.Kind, s.Net, resp)
			}
			c.count(fmt.Sprintf("api_calls_method_%d", method), 1)
			c.done(s.Kind, s.Net, resp)
		}
		cur.Store(nil)
		p.AddEnr(adv.Self())
		c.liveness(s)
	case s.Kind == "wire-stream":
		c.wireParallel(s, lo, hi, func(i, local int, adv *pnode.Adversary, rng *rand.Rand) []byte {
			// a fresh key is offered, the node accepts, then the stream body is hostile
			nk := 1 + rng.Intn(3)
			var keys [][]byte
			for k := 0; k < nk; k++ {
				key := randBytes(rng, 33)
				key[0] = map[string]byte{"history": 0x00, "beacon": 0x10, "state": 0x20}[s.Net]
				keys = append(keys, key)
			}
			body := streamBody(rng, nk)
			c.logCase(i, s.Kind, s.Net, body)
			offer := append([]byte{portalwire.OFFER}, append(binary.LittleEndian.AppendUint32(nil, 4), sszListOfBytes(keys)...)...)
			reply, err := adv.Talk(ne.node.Self(), string(ne.proto), offer)
			if err != nil || len(reply) < 4 || reply[0] != portalwire.ACCEPT {
				c.count("stream_offer_not_accepted", 1)
				return body
			}
			acc := &portalwire.AcceptV1{}
			if err := acc.UnmarshalSSZ(reply[1:]); err != nil {
				a0 := &portalwire.Accept{}
				if a0.UnmarshalSSZ(reply[1:]) != nil || len(bitfield.Bitlist(a0.ContentKeys).BitIndices()) == 0 {
					c.count("stream_offer_not_accepted", 1)
					return body
				}
				acc.ConnectionId = a0.ConnectionId
			} else if len(acc.GetAcceptIndices()) == 0 {
				c.count("stream_offer_declined", 1)
				if len(acc.ContentKeys) > 0 {
					c.count(fmt.Sprintf("stream_offer_declined_code_%d_%s", acc.ContentKeys[0], s.Net), 1)
				}
				return body
			}
			connID := binary.BigEndian.Uint16(acc.ConnectionId)
			ctx, cancel := context.WithTimeout(context.Background(), 5*time.Second)
			defer cancel()
			conn, err := adv.Utp.DialWithCid(ctx, ne.node.Self(), connID)
			if err != nil {
				c.count("stream_dial_failed", 1)
				return body
			}
			wctx, wcancel := context.WithTimeout(context.Background(), 5*time.Second)
			defer wcancel()
			if _, err := conn.Write(wctx, body); err != nil {
				c.count("stream_write_failed", 1)
			} else {
				c.count("stream_bodies_delivered", 1)
			}
			conn.Close()
			return body
		})
		time.Sleep(300 * time.Millisecond)
		c.liveness(s)
	case s.Kind == "served-stream":
		// the answer to the node's own FINDCONTENT announces a connection id that the peer really serves: the node
		// dials, reads the stream to its end and has to make sense of a hostile body (the peers speak version 1, so the
		// body is expected to carry a length prefix)
		naddr := &net.UDPAddr{IP: ne.node.Self().IP(), Port: ne.node.Self().UDP()}
		c.wireParallel(s, lo, hi, func(i, local int, adv *pnode.Adversary, rng *rand.Rand) []byte {
			body := streamBody(rng, 1)
			if len(body) == 0 && local%8 != 0 {
				// a stream that ends without a byte keeps the node reading until its 15 s read timeout: a few of those are enough
				body = append(hostilePrefix(rng), randBytes(rng, rng.Intn(12))...)
			}
			c.logCase(i, s.Kind, s.Net, body)
			cid := adv.Utp.CidWithAddr(ne.node.Self(), naddr, false)
			served := make(chan struct{})
			go func() {
				defer close(served)
				ctx, cancel := context.WithTimeout(context.Background(), 10*time.Second)
				defer cancel()
				conn, err := adv.Utp.AcceptWithCid(ctx, cid)
				if err != nil {
					c.count("served_stream_accept_failed", 1)
					return
				}
				wctx, wcancel := context.WithTimeout(context.Background(), 5*time.Second)
				defer wcancel()
				if _, err := conn.Write(wctx, body); err != nil {
					c.count("served_stream_write_failed", 1)
				} else {
					c.count("served_stream_bodies_delivered", 1)
				}
				// the serving side's Close returns only when utp-go has wound the connection down, which takes its idle
				// timeout (60 s) after an empty stream; that is the scripted peer's business, nobody waits for it
				go conn.Close()
			}()
			resp := append([]byte{portalwire.CONTENT, portalwire.ContentConnIdSelector}, binary.BigEndian.AppendUint16(nil, cid.Send)...)
			var perr error
			site, m, pan := guard(func() { _, _, perr = p.VerifProcessContent(adv.Self(), resp) })
			if pan {
				c.violation("panic:"+site+":"+msgClass(m), fmt.Sprintf("processContent panicked on the body of a served uTP stream (%s): %s at %s", s.Net, m, site), i, s.Kind, s.Net, body)
			} else if perr != nil {
				c.count("served_stream_returned_error", 1)
			} else {
				c.count("served_stream_returned_content", 1)
			}
			<-served
			return body
		})
		c.liveness(s)
	case s.Kind == "findcontent-stored":
		// FINDCONTENT for items the node really holds, around and above the one-packet limit, from senders with
		// ordinary and unusual records, by direct call and (every fourth case) over the wire from a live peer
		// whose record has no endpoint. Large items make the handler announce a uTP transfer.
		for i := lo; i < hi; i++ {
			local := i - s.start
			if len(ne.large) == 0 {
				c.done(s.Kind, s.Net, []byte{byte(i)})
				continue
			}
			key := ne.large[local%len(ne.large)]
			msg := append([]byte{portalwire.FINDCONTENT}, append(binary.LittleEndian.AppendUint32(nil, 4), key...)...)
			c.logCase(i, s.Kind, s.Net, msg)
			if local%4 == 3 {
				reply, err := c.env.noEP.Talk(ne.node.Self(), string(ne.proto), msg)
				if err == nil {
					if bad := checkReply(msg, reply); bad != "" {
						c.violation("malformed-reply:"+strings.SplitN(bad, ":", 2)[0], "wire reply is not well-formed: "+bad, i, s.Kind, s.Net, msg)
					}
					c.count("findcontent_stored_wire_replies", 1)
				} else {
					c.count("wire_no_response", 1)
				}
			} else {
				sender := c.env.senders[(local/4)%len(c.env.senders)]
				var reply []byte
				site, m, pan := guard(func() { reply = p.VerifHandleTalkRequest(sender, c.env.paddr, msg) })
				if pan {
					c.violation("panic:"+site+":"+msgClass(m), fmt.Sprintf("FINDCONTENT for a stored item (%s) panicked: %s at %s (sender record: %s)", s.Net, m, site, sender.String()), i, s.Kind, s.Net, msg)
				} else if bad := checkReply(msg, reply); bad != "" {
					c.violation("malformed-reply:"+strings.SplitN(bad, ":", 2)[0], "reply is not well-formed: "+bad, i, s.Kind, s.Net, msg)
				}
				if len(reply) > 2 && reply[0] == portalwire.CONTENT {
					c.count(fmt.Sprintf("findcontent_stored_selector_%d", reply[1]), 1)
				}
			}
			c.done(s.Kind, s.Net, msg)
		}
		c.liveness(s)
	case s.Kind == "slow-content":
		// CONTENT answers that announce a connection id nobody serves: the node dials and must give up (15 s)
		target := c.env.advs[1].Self()
		var wg sync.WaitGroup
		for i := lo; i < hi; i++ {
			local := i - s.start
			rng := c.rng(s.Kind, s.Net, local)
			resp := append([]byte{portalwire.CONTENT, portalwire.ContentConnIdSelector}, randBytes(rng, 2)...)
			c.logCase(i, s.Kind, s.Net, resp)
			wg.Add(1)
			go func(i int) {
				defer wg.Done()
				start := time.Now()
				site, m, pan := guard(func() { _, _, _ = p.VerifProcessContent(target, resp) })
				if pan {
					c.violation("panic:"+site+":"+msgClass(m), fmt.Sprintf("processContent (connection id) panicked: %s at %s", m, site), i, s.Kind, s.Net, resp)
				}
				c.count("slow_content_returned", 1)
				c.resMu.Lock()
				if d := int64(time.Since(start).Seconds()); d > c.res.Counters["slow_content_max_seconds"] {
					c.res.Counters["slow_content_max_seconds"] = d
				}
				c.resMu.Unlock()
			}(i)
		}
		doneCh := make(chan struct{})
		go func() { wg.Wait(); close(doneCh) }()
		tick := time.NewTicker(5 * time.Second)
	wait:
		for waited := 0; ; waited += 5 {
			select {
			case <-doneCh:
				break wait
			case <-tick.C:
				if waited < 40 {
					c.lastTick.Store(time.Now().UnixNano()) // legitimate: the code's own 15 s dial timeout
				}
			}
		}
		tick.Stop()
		for i := lo; i < hi; i++ {
			c.done(s.Kind, s.Net, []byte{byte(i)})
		}
	}
}

// wireParallel runs wire cases with one in flight per adversary.
func (c *child) wireParallel(s segment, lo, hi int, f func(i, local int, adv *pnode.Adversary, rng *rand.Rand) []byte) {
	var wg sync.WaitGroup
	next := int64(lo)
	for _, adv := range c.env.advs {
		wg.Add(1)
		go func(adv *pnode.Adversary) {
			defer wg.Done()
			for {
				i := int(atomic.AddInt64(&next, 1) - 1)
				if i >= hi {
					return
				}
				local := i - s.start
				in := f(i, local, adv, c.rng(s.Kind, s.Net, local))
				c.done(s.Kind, s.Net, in)
			}
		}(adv)
	}
	wg.Wait()
}

// queueLiveness: the network's content loop must still be consuming its queue. A marker element with no keys is
// queued behind whatever the sequence left there; a loop that is stuck on an earlier element never takes it
// (the 45 s wedge watchdog then ends the child with the sequence segment logged as in flight).
func (c *child) queueLiveness(s segment) {
	ne := c.env.nets[s.Net]
	q := ne.node.Queue
	c.logCase(s.start+s.Count-1, s.Kind, s.Net, []byte("content-queue-marker"))
	q <- &portalwire.ContentElement{}
	for len(q) > 0 {
		time.Sleep(5 * time.Millisecond)
	}
	c.lastTick.Store(time.Now().UnixNano())
	c.count("content_queue_markers_consumed", 1)
}

// drain waits until the node's own earlier requests to the scripted peers have been dealt with. discv5 runs one
// call per remote node at a time and queues the rest; every hostile PING that announced a higher sequence number
// made the node queue a record request to its sender (processPing -> RequestENR), each of which takes a response
// timeout when the sender does not answer it. A request that a later case makes the node send to the same peer
// waits behind them - that is queueing, not a wedge, and it would be charged to the wrong case. The queue is first
// in, first out, so one more request per peer returning means everything before it is done. While the backlog
// shrinks the watchdog is kept quiet, for at most 20 minutes: a queue that never drains is still reported.
func (c *child) drain(s segment) {
	ne := c.env.nets[s.Net]
	// The sender identities of the direct handler calls do not exist on the fabric (and one live peer has no endpoint
	// in its record), yet the node holds them as table entries since their "requests", with thousands of record
	// requests queued for each of them at one response timeout apiece. A lookup that includes such an entry waits for
	// its own query to reach the head of that queue - minutes, charged to the lookup's case. They leave the table the
	// way a user removes a node (DeleteEnr); what is queued for them drains in the background.
	api := portalwire.NewPortalAPI(ne.node.P)
	for _, n := range append(append([]*enode.Node{}, c.env.senders...), c.env.noEP.Self()) {
		if ok, _ := api.DeleteEnr(n.ID().String()); ok {
			c.count("unreachable_sender_identities_removed_from_the_table_before_node_originated_calls", 1)
		}
	}
	t0 := time.Now()
	var wg sync.WaitGroup
	for _, adv := range c.env.advs {
		wg.Add(1)
		go func(adv *pnode.Adversary) {
			defer wg.Done()
			_, _, _ = guard(func() { _, _ = ne.node.P.VerifPing(adv.Self()) })
		}(adv)
	}
	done := make(chan struct{})
	go func() { wg.Wait(); close(done) }()
	tick := time.NewTicker(2 * time.Second)
	defer tick.Stop()
	for {
		select {
		case <-done:
			ms := time.Since(t0).Milliseconds()
			c.resMu.Lock()
			if ms >= c.res.Counters["max_ms_waited_for_the_nodes_own_request_backlog"] {
				c.res.Counters["max_ms_waited_for_the_nodes_own_request_backlog"] = ms
			}
			c.resMu.Unlock()
			c.lastTick.Store(time.Now().UnixNano())
			return
		case <-tick.C:
			if time.Since(t0) < 20*time.Minute {
				c.lastTick.Store(time.Now().UnixNano())
			}
		}
	}
}

// liveness: after a batch of hostile traffic a well-formed PING must still be answered.
func (c *child) liveness(s segment) {
	ne := c.env.nets[s.Net]
	rng := c.rng("liveness", s.Net, 0)
	payload := validPayload(rng, 0)
	b, _ := (&portalwire.Ping{EnrSeq: 1, PayloadType: 0, Payload: payload}).MarshalSSZ()
	msg := append([]byte{portalwire.PING}, b...)
	for try := 0; try < 3; try++ {
		reply, err := c.env.advs[len(c.env.advs)-1].Talk(ne.node.Self(), string(ne.proto), msg)
		if err == nil && len(reply) > 0 && reply[0] == portalwire.PONG {
			c.count("liveness_probes_answered", 1)
			return
		}
		time.Sleep(200 * time.Millisecond)
	}
	c.violation("unresponsive-after-batch", fmt.Sprintf("the %s node no longer answers a well-formed PING after segment %s", s.Net, s.Kind), s.start, s.Kind, s.Net, msg)
}
