package main

// Synthetic current-fork beacon items. The repository's beacon vectors are Capella-era and the beacon
// validator only accepts optimistic updates with the Electra fork digest, so without these the
// "accepted, stored, then looked up" paths of the beacon adapter's update cache are never entered.
// The items are re-encodings of the genuine Capella vector in the Deneb/Electra layout at a few
// signature slots; nothing in the validator checks more than digest, layout and slot-vs-key.

import (
	"bytes"
	"encoding/binary"

	"github.com/protolambda/zrnt/eth2/beacon/capella"
	"github.com/protolambda/zrnt/eth2/beacon/common"
	"github.com/protolambda/zrnt/eth2/beacon/deneb"
	"github.com/protolambda/zrnt/eth2/configs"
	"github.com/protolambda/ztyp/codec"
	tbeacon "github.com/zen-eth/shisui/types/beacon"
)

func synthBeaconSeeds(seeds []seedKV) []seedKV {
	var out []seedKV
	for _, s := range seeds {
		if len(s.key) != 9 || s.key[0] != byte(tbeacon.LightClientOptimisticUpdate) {
			continue
		}
		var f tbeacon.ForkedLightClientOptimisticUpdate
		if err := f.Deserialize(configs.Mainnet, codec.NewDecodingReader(bytes.NewReader(s.val), uint64(len(s.val)))); err != nil {
			continue
		}
		cu, ok := f.LightClientOptimisticUpdate.(*capella.LightClientOptimisticUpdate)
		if !ok {
			continue
		}
		base := binary.LittleEndian.Uint64(s.key[1:])
		for _, d := range []uint64{0, 1, 2, 32, 8192} {
			du := &deneb.LightClientOptimisticUpdate{
				AttestedHeader: deneb.LightClientHeader{Beacon: cu.AttestedHeader.Beacon, ExecutionBranch: cu.AttestedHeader.ExecutionBranch},
				SyncAggregate:  cu.SyncAggregate,
				SignatureSlot:  common.Slot(base + d),
			}
			nf := tbeacon.ForkedLightClientOptimisticUpdate{ForkDigest: tbeacon.Electra, LightClientOptimisticUpdate: du}
			var buf bytes.Buffer
			if err := nf.Serialize(configs.Mainnet, codec.NewEncodingWriter(&buf)); err != nil {
				continue
			}
			key := append([]byte{s.key[0]}, binary.LittleEndian.AppendUint64(nil, base+d)...)
			out = append(out, seedKV{key, buf.Bytes()})
		}
		break
	}
	return out
}
