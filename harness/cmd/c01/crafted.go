package main

// Internally consistent post-merge header items with peer-chosen slots. A random or bit-flipped
// BlockHeaderWithProof stops at the execution-block Merkle check; an item whose execution branch
// really hashes from the header hash up to the beacon block root it carries gets past that check and
// reaches the code that indexes the trusted accumulators with the proof's slot. Constants are those
// of the consensus and portal specs.

import (
	"crypto/sha256"
	"encoding/binary"
	"math/big"
	"math/bits"
	"math/rand"

	"github.com/ethereum/go-ethereum/common"
	"github.com/ethereum/go-ethereum/core/types"
	"github.com/ethereum/go-ethereum/rlp"
)

const (
	cMergeBlock       = 15_537_394
	cShanghaiBlock    = 17_034_870
	cCancunBlock      = 19_426_587
	cCapellaStartSlot = 194_048 * 32
	cGIndexBellatrix  = 3228
	cGIndexDeneb      = 6444
)

func upBranch(leaf [32]byte, branch []byte, gindex uint64) [32]byte {
	node := leaf
	for i := 0; i < bits.Len64(gindex)-1; i++ {
		var buf [64]byte
		if (gindex>>uint(i))&1 == 1 {
			copy(buf[:32], branch[i*32:])
			copy(buf[32:], node[:])
		} else {
			copy(buf[:32], node[:])
			copy(buf[32:], branch[i*32:])
		}
		node = sha256.Sum256(buf[:])
	}
	return node
}

var hostileSlots = []uint64{0, 1, 8191, 8192, cMergeBlock, cCapellaStartSlot - 8193, cCapellaStartSlot - 8192, cCapellaStartSlot - 1, cCapellaStartSlot,
	cCapellaStartSlot + 8192, cCapellaStartSlot + 8192*1000, 1 << 31, 1 << 32, 1<<63 - 1, 1 << 63, 1<<63 + cCapellaStartSlot, ^uint64(0) - 8192, ^uint64(0)}

// craftedHeaderItem returns (content key, content) of a block-header item for a synthetic post-merge header.
func craftedHeaderItem(rng *rand.Rand) (key, val []byte) {
	eraIdx := rng.Intn(3) // bellatrix, capella, deneb
	lo := []uint64{cMergeBlock, cShanghaiBlock, cCancunBlock}[eraIdx]
	hi := []uint64{cShanghaiBlock, cCancunBlock, 30_000_000}[eraIdx]
	number := lo + uint64(rng.Int63n(int64(hi-lo)))
	switch rng.Intn(6) {
	case 0:
		number = lo
	case 1:
		number = hi - 1
	}
	h := &types.Header{UncleHash: types.EmptyUncleHash, Difficulty: new(big.Int), Number: new(big.Int).SetUint64(number), GasLimit: 30_000_000,
		GasUsed: uint64(rng.Int63n(30_000_000)), Time: uint64(rng.Int63n(1 << 33)), BaseFee: new(big.Int).SetUint64(uint64(rng.Int63n(1 << 40)))}
	rng.Read(h.ParentHash[:])
	rng.Read(h.Root[:])
	rng.Read(h.TxHash[:])
	rng.Read(h.ReceiptHash[:])
	if eraIdx >= 1 {
		var wh common.Hash
		rng.Read(wh[:])
		h.WithdrawalsHash = &wh
	}
	if eraIdx >= 2 {
		bg, eb := uint64(rng.Int63n(1<<20)), uint64(rng.Int63n(1<<20))
		var pr common.Hash
		rng.Read(pr[:])
		h.BlobGasUsed, h.ExcessBlobGas, h.ParentBeaconRoot = &bg, &eb, &pr
	}
	execLen, beaconLen, g := 11, 13, uint64(cGIndexBellatrix)
	if eraIdx == 0 {
		beaconLen = 14
	}
	if eraIdx == 2 {
		execLen, g = 12, cGIndexDeneb
	}
	exec := randBytes(rng, execLen*32)
	beaconRoot := upBranch([32]byte(h.Hash()), exec, g)
	slot := hostileSlots[rng.Intn(len(hostileSlots))]
	if rng.Intn(3) == 0 {
		slot = rng.Uint64() >> uint(rng.Intn(64))
	}
	proof := append(append(append(randBytes(rng, beaconLen*32), beaconRoot[:]...), exec...), binary.LittleEndian.AppendUint64(nil, slot)...)
	hdr, _ := rlp.EncodeToBytes(h)
	// BlockHeaderWithProof = Container(header: ByteList, proof: ByteList): two 4-byte offsets, then the two bodies
	val = binary.LittleEndian.AppendUint32(nil, 8)
	val = binary.LittleEndian.AppendUint32(val, uint32(8+len(hdr)))
	val = append(append(val, hdr...), proof...)
	hash := h.Hash()
	return append([]byte{0x00}, hash[:]...), val
}
