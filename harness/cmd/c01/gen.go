package main

import (
	"encoding/binary"
	"math/rand"

	"github.com/ethereum/go-ethereum/rlp"
	"github.com/zen-eth/shisui/portalwire"
	pingext "github.com/zen-eth/shisui/portalwire/ping_ext"
	"verifharness/pnode"
)

var keyLens = []int{0, 1, 2, 8, 9, 10, 32, 33, 34, 41, 42, 64, 65, 2048}

// matrixKey enumerates type byte x length: index in [0, 256*len(keyLens)).
func matrixKey(idx int, rng *rand.Rand) []byte {
	t := byte(idx % 256)
	l := keyLens[(idx/256)%len(keyLens)]
	if l == 0 {
		return []byte{}
	}
	k := make([]byte, l)
	rng.Read(k)
	k[0] = t
	switch rng.Intn(4) {
	case 0:
		for i := 1; i < l; i++ {
			k[i] = 0
		}
	case 1:
		for i := 1; i < l; i++ {
			k[i] = 0xff
		}
	}
	return k
}

// nearKey moves one 8-byte little-endian field of a genuine key (or its last byte) by a few units.
func nearKey(rng *rand.Rand, in []byte) []byte {
	b := append([]byte(nil), in...)
	d := uint64(1 + rng.Intn(3))
	if rng.Intn(2) == 0 {
		d = -d
	}
	if len(b) >= 9 {
		off := 1 + 8*rng.Intn((len(b)-1)/8)
		v := binary.LittleEndian.Uint64(b[off:]) + d
		if rng.Intn(3) == 0 {
			// one field at a boundary of the integer types it may be converted to, the other fields genuine (a count
			// or a number that only matters once the item named by the rest of the key is held)
			far := []uint64{0, 1 << 31, 1 << 32, 1 << 60, 1 << 62, 1<<63 - 1, 1 << 63, 1<<64 - 1}
			v = far[rng.Intn(len(far))] - uint64(rng.Intn(2))*binary.LittleEndian.Uint64(b[off:])
		}
		binary.LittleEndian.PutUint64(b[off:], v)
	} else if len(b) > 1 {
		b[len(b)-1] += byte(d)
	}
	return b
}

func mutate(rng *rand.Rand, in []byte) []byte {
	b := append([]byte(nil), in...)
	n := 1 + rng.Intn(3)
	for i := 0; i < n; i++ {
		switch rng.Intn(10) {
		case 0: // bit flip
			if len(b) > 0 {
				b[rng.Intn(len(b))] ^= 1 << uint(rng.Intn(8))
			}
		case 1: // byte set
			if len(b) > 0 {
				b[rng.Intn(len(b))] = []byte{0, 1, 0x7f, 0x80, 0xff}[rng.Intn(5)]
			}
		case 2: // truncate
			if len(b) > 0 {
				b = b[:rng.Intn(len(b))]
			}
		case 3: // extend
			ext := make([]byte, 1+rng.Intn(40))
			rng.Read(ext)
			b = append(b, ext...)
		case 4: // shift a 4-byte little-endian offset field by +-1/+-4/huge
			if len(b) >= 5 {
				p := 1 + rng.Intn(len(b)-4)
				v := binary.LittleEndian.Uint32(b[p:])
				d := []uint32{1, 4, ^uint32(0), ^uint32(3), 0x80000000, 0xffff}[rng.Intn(6)]
				binary.LittleEndian.PutUint32(b[p:], v+d)
			}
		case 5: // set an early 4-byte field to an extreme value
			if len(b) >= 5 {
				p := 1 + rng.Intn(min(len(b)-4, 16))
				binary.LittleEndian.PutUint32(b[p:], []uint32{0, 1, 3, 4, 5, 0xffffffff, uint32(len(b)), uint32(len(b)) + 1}[rng.Intn(8)])
			}
		case 6: // duplicate a chunk
			if len(b) > 2 {
				p := rng.Intn(len(b))
				q := p + rng.Intn(len(b)-p)
				b = append(b[:q], append(append([]byte(nil), b[p:q]...), b[q:]...)...)
			}
		case 7: // zero a range
			if len(b) > 1 {
				p := rng.Intn(len(b))
				for j := p; j < len(b) && j < p+8; j++ {
					b[j] = 0
				}
			}
		case 8: // cut from the middle
			if len(b) > 4 {
				p := 1 + rng.Intn(len(b)-2)
				q := p + 1 + rng.Intn(len(b)-p-1)
				b = append(b[:p], b[q:]...)
			}
		case 9: // change the message code / selector
			if len(b) > 0 {
				b[0] = byte(rng.Intn(256))
			}
		}
	}
	return b
}

func randBytes(rng *rand.Rand, n int) []byte {
	b := make([]byte, n)
	rng.Read(b)
	return b
}

func validPayload(rng *rand.Rand, typ uint16) []byte {
	radius := randBytes(rng, 32)
	switch typ {
	case pingext.ClientInfo:
		p := pingext.NewClientInfoAndCapabilitiesPayload(radius, []uint16{0, 1, 2, 65535}[:1+rng.Intn(4)])
		b, _ := p.MarshalSSZ()
		return b
	case pingext.BasicRadius:
		b, _ := pingext.NewBasicRadiusPayload(radius).MarshalSSZ()
		return b
	case pingext.HistoryRadius:
		b, _ := pingext.NewHistoryRadiusPayload(radius, uint16(rng.Intn(65536))).MarshalSSZ()
		return b
	case pingext.Error:
		return pingext.GetErrorPayloadBytes(uint16(rng.Intn(4)))
	}
	return randBytes(rng, rng.Intn(64))
}

func pingLike(rng *rand.Rand, code byte) []byte {
	typ := []uint16{0, 1, 2, 65535, 3, 4, 256, 65534}[rng.Intn(8)]
	payload := validPayload(rng, typ)
	if rng.Intn(4) == 0 {
		payload = randBytes(rng, []int{0, 1, 2, 31, 32, 33, 34, 35, 1099, 1100, 1101}[rng.Intn(11)])
	}
	seq := []uint64{0, 1, 2, 1 << 63, ^uint64(0)}[rng.Intn(5)]
	var b []byte
	if code == portalwire.PING {
		b, _ = (&portalwire.Ping{EnrSeq: seq, PayloadType: typ, Payload: payload}).MarshalSSZ()
	} else {
		b, _ = (&portalwire.Pong{EnrSeq: seq, PayloadType: typ, Payload: payload}).MarshalSSZ()
	}
	if b == nil { // over-limit payload: build by hand
		b = make([]byte, 14)
		binary.LittleEndian.PutUint64(b, seq)
		binary.LittleEndian.PutUint16(b[8:], typ)
		binary.LittleEndian.PutUint32(b[10:], 14)
		b = append(b, payload...)
	}
	return append([]byte{code}, b...)
}

func findNodesMsg(rng *rand.Rand) []byte {
	n := []int{0, 1, 2, 3, 16, 255, 256, 257, 300}[rng.Intn(9)]
	b := make([]byte, 4, 4+2*n)
	binary.LittleEndian.PutUint32(b, 4)
	for i := 0; i < n; i++ {
		d := uint16(rng.Intn(258))
		switch rng.Intn(6) {
		case 0:
			d = 0
		case 1:
			d = 256
		case 2:
			d = uint16(rng.Intn(65536))
		case 3:
			d = uint16(240 + rng.Intn(17))
		}
		b = binary.LittleEndian.AppendUint16(b, d)
	}
	return append([]byte{portalwire.FINDNODES}, b...)
}

func sszListOfBytes(items [][]byte) []byte {
	off := 4 * len(items)
	var head, body []byte
	for _, it := range items {
		head = binary.LittleEndian.AppendUint32(head, uint32(off))
		off += len(it)
		body = append(body, it...)
	}
	return append(head, body...)
}

func (g *gen) someKey(rng *rand.Rand) []byte {
	switch rng.Intn(5) {
	case 0:
		if len(g.seeds) > 0 {
			return g.seeds[rng.Intn(len(g.seeds))].key
		}
	case 1:
		if len(g.seeds) > 0 {
			return mutate(rng, g.seeds[rng.Intn(len(g.seeds))].key)
		}
	case 2:
		return randBytes(rng, []int{0, 1, 2, 33, 2048, 2049}[rng.Intn(6)])
	}
	return matrixKey(rng.Intn(256*len(keyLens)), rng)
}

type gen struct {
	seeds []seedKV
	enrs  [][]byte // valid ENR encodings
}

func newGen(seeds []seedKV, rng *rand.Rand) *gen {
	g := &gen{seeds: seeds}
	for i := 0; i < 24; i++ {
		ip := pnode.Addr4(byte(11+rng.Intn(200)), byte(rng.Intn(256)), byte(rng.Intn(256)), byte(1+rng.Intn(250)), 0).Addr()
		if i%5 == 0 {
			ip = pnode.Addr4(127, 0, 0, 1, 0).Addr()
		}
		n := pnode.SignedNode(pnode.NewKey(rng), ip, []int{0, 80, 1024, 1025, 9000, 65535}[rng.Intn(6)], uint64(rng.Intn(4)))
		b, _ := rlp.EncodeToBytes(n.Record())
		g.enrs = append(g.enrs, b)
	}
	return g
}

func (g *gen) enrList(rng *rand.Rand) [][]byte {
	n := []int{0, 1, 2, 5, 16, 32, 33}[rng.Intn(7)]
	var l [][]byte
	for i := 0; i < n; i++ {
		e := g.enrs[rng.Intn(len(g.enrs))]
		switch rng.Intn(8) {
		case 0:
			e = mutate(rng, e)
		case 1:
			e = randBytes(rng, rng.Intn(40))
		case 2:
			e = []byte{}
		}
		l = append(l, e)
	}
	return l
}

// request returns a TALKREQ payload for the portal sub-protocols.
func (g *gen) request(rng *rand.Rand, idx int) []byte {
	if idx < 8 { // boundary lengths 0/1/2 and bare codes, always present
		return [][]byte{{}, {0}, {2}, {4}, {6}, {0, 0}, {4, 4}, {6, 4}}[idx]
	}
	var m []byte
	switch idx % 6 {
	case 0:
		m = pingLike(rng, portalwire.PING)
	case 1:
		m = findNodesMsg(rng)
	case 2:
		k := g.someKey(rng)
		m = append([]byte{portalwire.FINDCONTENT}, append(binary.LittleEndian.AppendUint32(nil, 4), k...)...)
	case 3:
		n := []int{0, 1, 2, 3, 8, 63, 64, 65}[rng.Intn(8)]
		var keys [][]byte
		for i := 0; i < n; i++ {
			keys = append(keys, g.someKey(rng))
		}
		m = append([]byte{portalwire.OFFER}, append(binary.LittleEndian.AppendUint32(nil, 4), sszListOfBytes(keys)...)...)
	case 4: // unknown / response codes used as requests
		m = append([]byte{byte(rng.Intn(256))}, randBytes(rng, rng.Intn(80))...)
		if rng.Intn(2) == 0 {
			m[0] = []byte{1, 3, 5, 7, 8, 9, 0x10, 0x7f, 0x80, 0xff}[rng.Intn(10)]
		}
	case 5:
		m = randBytes(rng, []int{0, 1, 2, 3, 5, 9, 17, 33, 100, 1100, 1200}[rng.Intn(11)])
	}
	if idx%6 < 4 && rng.Intn(5) < 3 {
		m = mutate(rng, m)
	}
	return m
}

// response returns a TALKRESP body for the given response kind.
func (g *gen) response(rng *rand.Rand, kind string, idx int) []byte {
	if idx < 6 {
		code := map[string]byte{"pong": 1, "nodes": 3, "content": 5, "offerresp": 7}[kind]
		return [][]byte{{}, {code}, {code, 0}, {code, 1}, {code, 2}, {code, 3}}[idx]
	}
	var m []byte
	switch kind {
	case "pong":
		m = pingLike(rng, portalwire.PONG)
	case "nodes":
		body := []byte{byte(rng.Intn(3))}
		body = binary.LittleEndian.AppendUint32(body, 5)
		body = append(body, sszListOfBytes(g.enrList(rng))...)
		m = append([]byte{portalwire.NODES}, body...)
	case "content":
		switch rng.Intn(4) {
		case 0: // raw
			m = append([]byte{portalwire.CONTENT, portalwire.ContentRawSelector}, randBytes(rng, []int{0, 1, 100, 1165, 2048, 2049}[rng.Intn(6)])...)
		case 1: // connection id: only malformed ones here (a valid one makes the node dial for 15 s; those run in the slow group)
			m = append([]byte{portalwire.CONTENT, portalwire.ContentConnIdSelector}, randBytes(rng, []int{0, 1, 3, 4, 8}[rng.Intn(5)])...)
		case 2:
			m = append([]byte{portalwire.CONTENT, portalwire.ContentEnrsSelector}, sszListOfBytes(g.enrList(rng))...)
		case 3:
			m = append([]byte{portalwire.CONTENT, byte(rng.Intn(256))}, randBytes(rng, rng.Intn(64))...)
		}
	case "offerresp":
		connID := randBytes(rng, 2)
		switch rng.Intn(3) {
		case 0: // v0 bitlist
			n := []int{0, 1, 2, 8, 9, 64, 65}[rng.Intn(7)]
			bl := make([]byte, n/8+1)
			for i := range bl {
				if rng.Intn(3) == 0 { // mostly declined: accepted bits start a 15 s dial in the background
					bl[i] = byte(rng.Intn(256))
				}
			}
			bl[n/8] &= (1 << uint(n%8)) - 1
			bl[n/8] |= 1 << uint(n%8)
			body := append(append([]byte{}, connID...), binary.LittleEndian.AppendUint32(nil, 6)...)
			m = append([]byte{portalwire.ACCEPT}, append(body, bl...)...)
		case 1: // v1 codes
			n := []int{0, 1, 2, 3, 64, 65}[rng.Intn(6)]
			codes := make([]byte, n)
			for i := range codes {
				codes[i] = byte(1 + rng.Intn(8))
				if rng.Intn(10) == 0 {
					codes[i] = 0
				}
			}
			body := append(append([]byte{}, connID...), binary.LittleEndian.AppendUint32(nil, 6)...)
			m = append([]byte{portalwire.ACCEPT}, append(body, codes...)...)
		case 2:
			m = append([]byte{portalwire.ACCEPT}, randBytes(rng, rng.Intn(20))...)
		}
	}
	if rng.Intn(5) < 3 {
		m = mutate(rng, m)
	}
	if kind == "content" && len(m) == 4 && m[0] == portalwire.CONTENT && m[1] == portalwire.ContentConnIdSelector {
		m = append(m, 0) // keep connection-id answers malformed in the fast group
	}
	return m
}

// streamBody returns a hostile uTP stream body for n offered keys.
func streamBody(rng *rand.Rand, n int) []byte {
	var items [][]byte
	k := n
	switch rng.Intn(4) {
	case 0:
		k = n + 1
	case 1:
		if n > 0 {
			k = n - 1
		}
	}
	for i := 0; i < k; i++ {
		items = append(items, randBytes(rng, []int{0, 1, 50, 127, 128, 300}[rng.Intn(6)]))
	}
	b := portalwire.VerifEncodeContents(items)
	if rng.Intn(2) == 0 {
		b = mutate(rng, b)
	}
	if rng.Intn(8) == 0 {
		b = append([]byte{0xff, 0xff, 0xff, 0xff, byte(rng.Intn(256))}, b...)
	}
	if rng.Intn(4) == 0 {
		// a hostile length prefix of any width a varint reader might accept (up to 10 bytes carry 64 bits) and beyond:
		// at the front, behind a well-formed item, or as the whole body
		pre := hostilePrefix(rng)
		switch rng.Intn(3) {
		case 0:
			b = append(pre, b...)
		case 1:
			b = append(portalwire.VerifEncodeContents([][]byte{randBytes(rng, []int{0, 1, 127, 128}[rng.Intn(4)])}), append(pre, randBytes(rng, rng.Intn(12))...)...)
		case 2:
			b = append(pre, randBytes(rng, rng.Intn(12))...)
		}
	}
	return b
}

// hostilePrefix returns c continuation bytes (0..11) followed by a terminating byte: every width from the one-byte
// prefix to one that overflows 64 bits, with all value bits set, none set, or random ones.
func hostilePrefix(rng *rand.Rand) []byte {
	c := rng.Intn(12)
	pre := make([]byte, 0, c+1)
	style := rng.Intn(3)
	for i := 0; i < c; i++ {
		switch style {
		case 0:
			pre = append(pre, 0xff)
		case 1:
			pre = append(pre, 0x80)
		default:
			pre = append(pre, 0x80|byte(rng.Intn(128)))
		}
	}
	return append(pre, []byte{0x00, 0x01, 0x0f, 0x10, 0x7f, byte(rng.Intn(128))}[rng.Intn(6)])
}

// utpPacket returns a raw uTP packet (20-byte header + payload) with hostile fields.
func utpPacket(rng *rand.Rand) []byte {
	h := make([]byte, 20)
	typ := byte(rng.Intn(6)) // 0 DATA 1 FIN 2 STATE 3 RESET 4 SYN, 5 invalid
	ver := byte(1)
	if rng.Intn(8) == 0 {
		ver = byte(rng.Intn(16))
	}
	h[0] = typ<<4 | ver
	h[1] = []byte{0, 0, 0, 1, 2, 0xff}[rng.Intn(6)] // extension
	binary.BigEndian.PutUint16(h[2:], uint16(rng.Intn(65536)))
	binary.BigEndian.PutUint32(h[4:], rng.Uint32())
	binary.BigEndian.PutUint32(h[8:], rng.Uint32())
	binary.BigEndian.PutUint32(h[12:], []uint32{0, 1, 1 << 20, ^uint32(0)}[rng.Intn(4)])
	binary.BigEndian.PutUint16(h[16:], uint16(rng.Intn(65536)))
	binary.BigEndian.PutUint16(h[18:], uint16(rng.Intn(65536)))
	p := append(h, randBytes(rng, []int{0, 0, 1, 8, 100, 1000}[rng.Intn(6)])...)
	switch rng.Intn(6) {
	case 0:
		p = p[:rng.Intn(len(p)+1)]
	case 1:
		p = mutate(rng, p)
	case 2: // selective-ack extension with hostile lengths
		p[1] = 1
		ext := []byte{byte(rng.Intn(3)), byte(rng.Intn(256))}
		ext = append(ext, randBytes(rng, rng.Intn(12))...)
		p = append(p[:20], append(ext, p[20:]...)...)
	}
	return p
}
