// C01 — no remote input can crash or wedge the node.
//
// Engine: a parent process owns the seed-determined case list and the verdict;
// child processes execute ranges of it against three real nodes (history,
// beacon, state with their real storage adapters and validators) on an
// in-memory discv5/uTP fabric. Every case is logged before it is executed, so
// that a process-fatal panic on a dependency goroutine (talk handlers run
// without recover) is attributed to its input and the run continues at the next
// case. Panics on the calling goroutine are recovered in the child and reported
// with their top shisui frame.
package main

import (
	"bufio"
	"encoding/binary"
	"encoding/hex"
	"encoding/json"
	"fmt"
	"os"
	"os/exec"
	"path/filepath"
	"strconv"
	"strings"
	"time"

	"verifharness/lib"
)

type segment struct {
	Kind  string // talkreq pong nodes content offerresp offered validate get wire-talkreq wire-resp-<kind> wire-stream wire-utp slow-content
	Net   string
	Count int
	start int
}

// caseList: the seed-independent shape of the case list. The "metrics" pass (quick tier only) is a sixth of the
// quick list, executed by children that run with go-ethereum metrics enabled, as a node started with --metrics does.
func caseList(quick bool) ([]segment, int) {
	mini := os.Getenv("VERIF_C01_PASS") == "metrics"
	q := func(a, b int) int {
		if mini {
			return max(a/6, 4)
		}
		if quick {
			return a
		}
		return b
	}
	var segs []segment
	for _, n := range networks {
		segs = append(segs,
			segment{Kind: "talkreq", Net: n, Count: q(6000, 150000)},
			segment{Kind: "pong", Net: n, Count: q(2000, 40000)},
			segment{Kind: "nodes", Net: n, Count: q(2000, 40000)},
			segment{Kind: "content", Net: n, Count: q(2000, 40000)},
			segment{Kind: "offerresp", Net: n, Count: q(1500, 30000)},
			segment{Kind: "offered", Net: n, Count: q(2000, 40000)},
			segment{Kind: "validate", Net: n, Count: q(7000, 200000)},
			segment{Kind: "get", Net: n, Count: q(256*len(keyLens), 256*len(keyLens)) + q(1000, 30000)},
			segment{Kind: "sequence", Net: n, Count: q(3000, 60000)},
			segment{Kind: "wire-talkreq", Net: n, Count: q(1600, 40000)},
			segment{Kind: "wire-resp-pong", Net: n, Count: q(200, 4000)},
			segment{Kind: "wire-resp-nodes", Net: n, Count: q(200, 4000)},
			segment{Kind: "wire-resp-content", Net: n, Count: q(200, 4000)},
			segment{Kind: "wire-resp-offerresp", Net: n, Count: q(200, 4000)},
			segment{Kind: "api", Net: n, Count: q(48, 2400)},
			segment{Kind: "wire-stream", Net: n, Count: q(24, 300)},
			segment{Kind: "findcontent-stored", Net: n, Count: q(48, 480)},
			segment{Kind: "served-stream", Net: n, Count: q(8, 160)},
		)
	}
	segs = append(segs, segment{Kind: "startup", Net: "history", Count: q(30, 90)}, segment{Kind: "startup", Net: "beacon", Count: q(10, 30)})
	segs = append(segs, segment{Kind: "late-answers", Net: "history", Count: q(14, 140)})
	segs = append(segs, segment{Kind: "wire-utp", Net: "history", Count: q(3000, 80000)})
	if !mini {
		segs = append(segs, segment{Kind: "slow-content", Net: "history", Count: q(6, 48)})
	}
	total := 0
	for i := range segs {
		segs[i].start = total
		total += segs[i].Count
	}
	return segs, total
}

type childViolation struct {
	Sig   string `json:"sig"`
	What  string `json:"what"`
	Case  int    `json:"case"`
	Kind  string `json:"kind"`
	Net   string `json:"net"`
	Input string `json:"input"`
}

type childResult struct {
	Done       int              `json:"done"` // cases completed
	Counters   map[string]int64 `json:"counters"`
	Violations []childViolation `json:"violations"`
	Inconcl    []string         `json:"inconclusive"`
	Samples    []any            `json:"samples"`
}

func main() {
	for i, a := range os.Args {
		if a == "--exec" && i+4 < len(os.Args) {
			from, _ := strconv.Atoi(os.Args[i+1])
			to, _ := strconv.Atoi(os.Args[i+2])
			childMain(os.Args[1], from, to, os.Args[i+3], os.Args[i+4])
			return
		}
	}
	// The generic lib parent/child wrapper is not used: this check supervises its own children.
	os.Setenv("VERIF_NO_FORK", "1")
	lib.Main("C01", "exploration", parentRun)
}

func parentRun(r *lib.Run) {
	segs, total := caseList(r.Quick() || os.Getenv("VERIF_C01_RACE") == "1")
	r.SetRule("cases = seed-determined list over {TALKREQ on each portal sub-protocol (direct handler call and over the in-memory discv5 link), the four TALKRESP kinds (direct response processors and over the wire as answers to the node's own requests), " +
		"uTP stream bodies after a genuine ACCEPT and uTP stream bodies served in answer to the node's own FINDCONTENT, raw uTP packets on the utp channel, (content key, content) through ValidateContent and, when accepted, ContentStorage.Put, ContentStorage.Get for peer-chosen keys, the sub-protocol's JSON-RPC methods (TraceOffer, Offer, FindContent, FindNodes, Ping, the recursive lookups, AddEnr(s), GetEnr, LookupEnr, Store, LocalContent, Gossip, DeleteEnr) against a peer that answers with hostile bytes, well-formed requests from peers with established sessions sent back to back while a fresh node starts and stops, content lookups whose peers answer well-formed but late (delays spread over the response timeout, one peer supplying the content), and stateful sequences that interleave store / look up / FINDCONTENT / OFFER / offered-stream steps around the genuine vectors and their numeric neighbours (followed by a probe that the network's content loop still consumes its queue)} x {history, beacon, state nodes with real storage adapters and validators}; " +
		"inputs: valid messages, structure-aware mutations, boundary lengths 0/1/2, unknown codes/selectors, the full key matrix (type byte 0x00..0xff x lengths 0,1,2,8,9,10,32,33,34,41,42,64,65,2048), mutated genuine vectors. " +
		"distinct_nontrivial = distinct (entry point, network, input) that reached the handler / processor / validator / adapter")
	r.Assume("a crash is a Go panic or fatal error of the process while handling a logged case, or a recovered panic on the calling goroutine; a wedge is a handling call that has not returned after 45 s (the longest legitimate path is a 15 s uTP dial)")
	r.Assume("reply well-formedness is decided with the real message decoders (their canonicality is C14's subject)")
	outDir := filepath.Join(lib.StateDir(), "out", "C01")
	_ = os.MkdirAll(outDir, 0o755)
	restarts, crashes := 0, 0
	distinct := map[uint64]struct{}{}
	passes := []string{"main"}
	if r.Quick() && os.Getenv("VERIF_C01_RACE") != "1" && !lib.MetricsWanted(r.Tier) {
		passes = append(passes, "metrics")
	}
	next, mainNext, mainTotal := 0, 0, total
	for _, pass := range passes {
		var penv []string
		if pass == "metrics" {
			os.Setenv("VERIF_C01_PASS", "metrics")
			penv = []string{"VERIF_C01_PASS=metrics", "VERIF_METRICS=1"}
			segs, total = caseList(true)
			r.Count("metrics_pass_cases", total)
		}
		next = 0
		rs, cs := superviseList(r, pass, segs, total, penv, outDir, distinct, &next)
		restarts += rs
		crashes += cs
		if pass == "main" {
			mainNext = next
		} else {
			os.Unsetenv("VERIF_C01_PASS")
			if next < total && int(r.Counter("cases_not_executed_after_crash_storm")) == 0 {
				r.FloorMiss("metrics pass: only %d of %d cases executed", next, total)
			}
			segs, total = caseList(r.Quick() || os.Getenv("VERIF_C01_RACE") == "1")
		}
	}
	next, total = mainNext, mainTotal
	for h := range distinct {
		var b [8]byte
		binary.LittleEndian.PutUint64(b[:], h)
		r.DistinctBytes(b[:])
	}
	if reps := lib.ParseRaceLogs(filepath.Join(outDir, "race-"+r.Tier)); len(reps) > 0 {
		// a data race is not a crash: listed for information (C05/C07/C09/C10/C16 judge races on their own state)
		pairs := map[string]int{}
		for _, rep := range reps {
			pairs[rep.PairSignature()]++
		}
		r.Extra("race_reports_info", pairs)
		r.Count("race_reports_info", len(reps))
	}
	r.Count("child_restarts", restarts)
	r.Count("process_crashes", crashes)
	r.Extra("case_list_length", total)
	var segDesc []string
	for _, s := range segs {
		segDesc = append(segDesc, fmt.Sprintf("%s/%s:%d", s.Kind, s.Net, s.Count))
	}
	r.Extra("segments", segDesc)
	if int(r.Counter("cases_not_executed_after_crash_storm")) == 0 && next < total {
		r.FloorMiss("only %d of %d cases executed", next, total)
	}
}

// superviseList runs one pass over a case list in child processes, restarting after the case that killed a child.
func superviseList(r *lib.Run, pass string, segs []segment, total int, penv []string, outDir string, distinct map[uint64]struct{}, nextp *int) (int, int) {
	restarts, crashes := 0, 0
	next := *nextp
	defer func() { *nextp = next }()
	maxRestarts := 80
	wedges := map[string]int{} // per segment: after three wedges the rest of that segment is skipped (45 s each)
	for next < total {
		if restarts > maxRestarts {
			r.Warn("stopped after %d child restarts; %d of %d cases not executed", restarts, total-next, total)
			r.Count("cases_not_executed_after_crash_storm", total-next)
			break
		}
		prog := filepath.Join(outDir, fmt.Sprintf("progress-%s-%s-%d.log", r.Tier, pass, restarts))
		res := filepath.Join(outDir, fmt.Sprintf("result-%s-%s-%d", r.Tier, pass, restarts))
		errf := filepath.Join(outDir, fmt.Sprintf("child-%s-%s-%d.stderr", r.Tier, pass, restarts))
		ef, _ := os.Create(errf)
		cmd := exec.Command(os.Args[0], r.Tier, "--exec", strconv.Itoa(next), strconv.Itoa(total), prog, res)
		cmd.Stdout = ef
		cmd.Stderr = ef
		cmd.Env = append(append(os.Environ(), penv...), "GOTRACEBACK=all", fmt.Sprintf("VERIF_SEED=%d", r.Seed),
			// only relevant for the -race build of the thorough tier (checkptr is on there): reports are logged, never fatal
			"GORACE=halt_on_error=0 exitcode=0 log_path="+filepath.Join(outDir, "race-"+r.Tier))
		// the child's stores live in a directory of its own, removed here because a child that crashed
		// or wedged (which is what this supervisor exists for) cannot do it
		ctmp, terr := os.MkdirTemp("", "c01-child-")
		if terr == nil {
			cmd.Env = append(cmd.Env, "TMPDIR="+ctmp)
		}
		err := cmd.Run()
		ef.Close()
		if terr == nil {
			os.RemoveAll(ctmp)
		}
		code := 0
		if err != nil {
			if ee, ok := err.(*exec.ExitError); ok {
				code = ee.ExitCode()
			} else {
				r.FloorMiss("cannot run child: %v", err)
				return restarts, crashes
			}
		}
		// merge what the child flushed
		var cr childResult
		if b, err := os.ReadFile(res + ".json"); err == nil {
			_ = json.Unmarshal(b, &cr)
		}
		for k, v := range cr.Counters {
			r.Count(k, int(v))
		}
		r.Eval(cr.Done)
		for _, s := range cr.Samples {
			r.Sample(s)
		}
		for _, s := range cr.Inconcl {
			r.Inconclusive("%s", s)
		}
		for _, v := range cr.Violations {
			r.Violation(v.Sig, v.What, map[string]any{"case": v.Case, "kind": v.Kind, "network": v.Net, "input_hex": v.Input})
		}
		if b, err := os.ReadFile(res + ".distinct"); err == nil {
			for i := 0; i+8 <= len(b); i += 8 {
				distinct[binary.LittleEndian.Uint64(b[i:])] = struct{}{}
			}
		}
		if code == 0 {
			next = total
			break
		}
		// the child died: attribute to the logged in-flight cases
		started := readProgress(prog)
		stderrB, _ := os.ReadFile(errf)
		last := next
		var inflight []map[string]any
		for _, s := range started {
			if s.idx >= last {
				last = s.idx
			}
		}
		for _, s := range started {
			if s.idx > last-8 {
				inflight = append(inflight, map[string]any{"case": s.idx, "kind": s.kind, "network": s.net, "input_hex": s.hex})
			}
		}
		if code == 4 {
			crashes++
			kind := "?"
			if len(started) > 0 {
				kind = started[len(started)-1].kind
			}
			r.Violation("wedge:"+kind, fmt.Sprintf("a handling call did not return within 45 s (case %d, %s)", last, kind),
				map[string]any{"in_flight": inflight, "goroutine_dump_tail": tailStr(string(stderrB), 8000)})
		} else {
			cl := lib.ClassifyCrash(string(stderrB))
			if cl.Harness {
				r.FloorMiss("child crashed in harness code (exit %d): %s", code, cl.Message)
				r.Extra("harness_crash_stderr_tail", tailStr(string(stderrB), 3000))
				break
			}
			crashes++
			kind := "?"
			if len(started) > 0 {
				kind = started[len(started)-1].kind
			}
			r.Violation("crash:"+cl.Site, fmt.Sprintf("the node process died (exit %d) while handling case %d (%s): %s at %s", code, last, kind, cl.Message, cl.Site),
				map[string]any{"in_flight": inflight, "frames": cl.Frames, "stderr_tail": tailStr(string(stderrB), 5000)})
		}
		next = last + 1
		restarts++
		if code == 4 {
			for _, sg := range segs {
				if last >= sg.start && last < sg.start+sg.Count {
					id := sg.Kind + "/" + sg.Net
					if wedges[id]++; wedges[id] >= 3 && next < sg.start+sg.Count {
						r.Warn("segment %s wedged %d times; its remaining %d cases are skipped", id, wedges[id], sg.start+sg.Count-next)
						r.Count("cases_skipped_after_repeated_wedges", sg.start+sg.Count-next)
						next = sg.start + sg.Count
					}
				}
			}
		}
	}
	return restarts, crashes
}

func tailStr(s string, n int) string {
	if len(s) > n {
		return s[len(s)-n:]
	}
	return s
}

type startedCase struct {
	idx            int
	kind, net, hex string
}

func readProgress(path string) []startedCase {
	f, err := os.Open(path)
	if err != nil {
		return nil
	}
	defer f.Close()
	var out []startedCase
	sc := bufio.NewScanner(f)
	sc.Buffer(make([]byte, 1<<20), 64<<20)
	for sc.Scan() {
		p := strings.SplitN(sc.Text(), " ", 5)
		if len(p) < 5 || p[0] != "CASE" {
			continue
		}
		i, _ := strconv.Atoi(p[1])
		out = append(out, startedCase{i, p[2], p[3], p[4]})
	}
	if len(out) > 64 {
		out = out[len(out)-64:]
	}
	return out
}

func hexShort(b []byte) string {
	if len(b) > 4096 {
		return hex.EncodeToString(b[:4096]) + fmt.Sprintf("...(%d bytes)", len(b))
	}
	return hex.EncodeToString(b)
}

var _ = time.Now
