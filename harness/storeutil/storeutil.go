// Package storeutil holds helpers shared by the storage monitors (C04, C05,
// C06, C17): opening the real pebble-backed content store on a directory or on
// an instrumented in-memory file system, scanning what the database really
// holds, and the XOR-metric arithmetic of the reference models.
package storeutil

import (
	"bytes"
	"encoding/binary"
	"errors"
	"runtime"

	"github.com/cockroachdb/pebble"
	"github.com/cockroachdb/pebble/bloom"
	"github.com/cockroachdb/pebble/vfs"
	"github.com/ethereum/go-ethereum/p2p/enode"
	"github.com/holiman/uint256"
	"github.com/zen-eth/shisui/storage"
	spebble "github.com/zen-eth/shisui/storage/pebble"
)

// OpenDir opens the database exactly as shisui does (its own NewDB).
func OpenDir(dir, name string) (*pebble.DB, error) {
	return spebble.NewDB(dir, 16, 16, name)
}

// OpenFS opens a database with the options of shisui's NewDB (16 MB cache, 4 MB
// memtables, same level options) on a caller-supplied file system. NewStorage
// accepts any *pebble.DB, so the store code under test is unchanged.
func OpenFS(fs vfs.FS, dir string, cache *pebble.Cache) (*pebble.DB, error) {
	opt := &pebble.Options{
		FS:                          fs,
		Cache:                       cache,
		MaxOpenFiles:                16,
		MemTableSize:                16 * 1024 * 1024 / 2 / 2,
		MemTableStopWritesThreshold: 2,
		MaxConcurrentCompactions:    runtime.NumCPU,
		Levels: []pebble.LevelOptions{
			{TargetFileSize: 2 * 1024 * 1024, FilterPolicy: bloom.FilterPolicy(10)},
			{TargetFileSize: 4 * 1024 * 1024, FilterPolicy: bloom.FilterPolicy(10)},
			{TargetFileSize: 8 * 1024 * 1024, FilterPolicy: bloom.FilterPolicy(10)},
			{TargetFileSize: 16 * 1024 * 1024, FilterPolicy: bloom.FilterPolicy(10)},
			{TargetFileSize: 32 * 1024 * 1024, FilterPolicy: bloom.FilterPolicy(10)},
			{TargetFileSize: 64 * 1024 * 1024, FilterPolicy: bloom.FilterPolicy(10)},
			{TargetFileSize: 128 * 1024 * 1024, FilterPolicy: bloom.FilterPolicy(10)},
		},
	}
	opt.Experimental.ReadSamplingMultiplier = -1
	return pebble.Open(dir, opt)
}

func NewStore(db *pebble.DB, node enode.ID, capacityMB uint64, name string) (storage.ContentStorage, error) {
	return spebble.NewStorage(storage.PortalStorageConfig{StorageCapacityMB: capacityMB, NodeId: node, NetworkName: name}, db)
}

// Item is one record really present in the database.
type Item struct {
	Key    [32]byte // distance key (node id XOR content id)
	ValLen int
	KeyLen int
}

// Scan lists every record except the reserved size key, in the database's own
// (byte-wise = big-endian) order, using a fresh iterator.
func Scan(db *pebble.DB) ([]Item, error) {
	it, err := db.NewIter(nil)
	if err != nil {
		return nil, err
	}
	defer it.Close()
	var out []Item
	for it.First(); it.Valid(); it.Next() {
		k := it.Key()
		if bytes.Equal(k, storage.SizeKey) {
			continue
		}
		var i Item
		copy(i.Key[:], k)
		i.KeyLen = len(k)
		i.ValLen = len(it.Value())
		out = append(out, i)
	}
	return out, it.Error()
}

// Held is the number of key+value bytes really present.
func Held(items []Item) uint64 {
	var s uint64
	for _, i := range items {
		s += uint64(i.KeyLen) + uint64(i.ValLen)
	}
	return s
}

// SizeRecord reads the persisted usage figure.
func SizeRecord(db *pebble.DB) (uint64, bool, error) {
	v, c, err := db.Get(storage.SizeKey)
	if errors.Is(err, pebble.ErrNotFound) {
		return 0, false, nil
	}
	if err != nil {
		return 0, false, err
	}
	defer c.Close()
	if len(v) != 8 {
		return 0, true, errors.New("size record is not 8 bytes")
	}
	return binary.BigEndian.Uint64(v), true, nil
}

// Xor returns node XOR id.
func Xor(node enode.ID, id [32]byte) (d [32]byte) {
	for i := range d {
		d[i] = node[i] ^ id[i]
	}
	return d
}

// BE reads a distance as the big-endian 256-bit number the property defines.
func BE(d [32]byte) *uint256.Int { return new(uint256.Int).SetBytes32(d[:]) }

// LE reads the same bytes little-endian (what uint256.UnmarshalSSZ does) — only
// used by the executable model of the recorded little-endian defect.
func LE(d [32]byte) *uint256.Int {
	var r [32]byte
	for i := range d {
		r[i] = d[31-i]
	}
	return new(uint256.Int).SetBytes32(r[:])
}

func CmpKeys(a, b [32]byte) int { return bytes.Compare(a[:], b[:]) }

var MaxRadius = storage.MaxDistance
