module verifharness

go 1.24.2

replace github.com/zen-eth/shisui => /repo

replace github.com/protolambda/zrnt v0.34.1 => github.com/optimism-java/zrnt v0.32.4-0.20250528142456-bc543d07ddb2

replace github.com/ethereum/go-ethereum => github.com/optimism-java/shisui v1.14.6-0.20250516133529-e5d979e5825f

require (
	github.com/anishathalye/porcupine v1.3.0
	github.com/ethereum/go-ethereum v1.15.8
	github.com/go-pkgz/expirable-cache/v3 v3.0.0
	github.com/zen-eth/shisui v0.0.0
)

require (
	github.com/OffchainLabs/go-bitfield v0.0.0-20250408211841-ad7364de91a5 // indirect
	github.com/VictoriaMetrics/fastcache v1.12.4 // indirect
	github.com/cespare/xxhash/v2 v2.3.0 // indirect
	github.com/emicklei/dot v1.6.3 // indirect
	github.com/ferranbt/fastssz v0.1.4 // indirect
	github.com/golang/snappy v1.0.0 // indirect
	github.com/google/btree v1.1.3 // indirect
	github.com/holiman/uint256 v1.3.2 // indirect
	github.com/huin/goupnp v1.3.0 // indirect
	github.com/jackpal/go-nat-pmp v1.0.2 // indirect
	github.com/kilic/bls12-381 v0.1.0 // indirect
	github.com/klauspost/cpuid/v2 v2.2.9 // indirect
	github.com/minio/sha256-simd v1.0.1 // indirect
	github.com/mitchellh/mapstructure v1.5.0 // indirect
	github.com/panjf2000/ants/v2 v2.11.3 // indirect
	github.com/panjf2000/gnet/v2 v2.8.0 // indirect
	github.com/pion/dtls/v2 v2.2.12 // indirect
	github.com/pion/logging v0.2.2 // indirect
	github.com/pion/stun/v2 v2.0.0 // indirect
	github.com/pion/transport/v2 v2.2.4 // indirect
	github.com/pion/transport/v3 v3.0.1 // indirect
	github.com/protolambda/bls12-381-util v0.1.0 // indirect
	github.com/protolambda/zrnt v0.34.1 // indirect
	github.com/protolambda/ztyp v0.2.2 // indirect
	github.com/shirou/gopsutil v3.21.4-0.20210419000835-c7a38de76ee5+incompatible // indirect
	github.com/syndtr/goleveldb v1.0.1-0.20210819022825-2ae1ddf74ef7 // indirect
	github.com/tetratelabs/wabin v0.0.0-20230304001439-f6f874872834 // indirect
	github.com/tklauser/go-sysconf v0.3.14 // indirect
	github.com/tklauser/numcpus v0.9.0 // indirect
	github.com/valyala/fastrand v1.1.0 // indirect
	github.com/zen-eth/utp-go v0.0.0-20250517113239-5d962dd66394 // indirect
	go.uber.org/multierr v1.11.0 // indirect
	go.uber.org/zap v1.27.0 // indirect
	golang.org/x/crypto v0.36.0 // indirect
	golang.org/x/net v0.38.0 // indirect
	golang.org/x/sync v0.14.0 // indirect
	golang.org/x/sys v0.33.0 // indirect
	golang.org/x/text v0.25.0 // indirect
	gopkg.in/natefinch/lumberjack.v2 v2.2.1 // indirect
	gopkg.in/yaml.v2 v2.4.0 // indirect
	gopkg.in/yaml.v3 v3.0.1 // indirect
)
