// Package tabledrv drives the real routing table (real loop goroutine, virtual
// clock, scripted transport) step by step and hands a snapshot taken under the
// table's own mutex to the monitors after every step. Used by C07 (structural
// invariants) and C18 (reference model of bucket policy).
package tabledrv

import (
	"errors"
	"fmt"
	"math/rand"
	"net/netip"
	"sync"
	"time"

	"github.com/ethereum/go-ethereum/common/mclock"
	"github.com/ethereum/go-ethereum/log"
	"github.com/ethereum/go-ethereum/p2p/enode"
	"github.com/zen-eth/shisui/portalwire"
	"verifharness/pnode"
)

// Rec is one version of a node's record in the generator's pool.
type Rec struct {
	ID   enode.ID
	Seq  uint64
	IP   netip.Addr
	Port int
	Node *enode.Node
}

func (r Rec) String() string {
	return fmt.Sprintf("%x.. seq=%d %s:%d", r.ID[:3], r.Seq, r.IP, r.Port)
}

// StepKind enumerates the operations of a serial history.
type StepKind int

const (
	AddFound StepKind = iota
	AddFoundLive
	AddInbound
	Delete
	TrackOK
	TrackFail
	Advance   // advance the virtual clock (may make revalidations due)
	PingReply // a revalidation ping the table started is answered (alive / dead / alive with new record)
	Refresh
)

var kindNames = []string{"add-found", "add-found-live", "add-inbound", "delete", "track-ok", "track-fail", "advance", "ping-reply", "refresh"}

func (k StepKind) String() string { return kindNames[k] }

// Step is what happened in one step, as the monitors need it.
type Step struct {
	N        int
	Kind     StepKind
	Rec      Rec           // subject of add/delete/track/ping-reply
	Found    []Rec         // nodes delivered with a track-request
	Delta    time.Duration // Advance
	Alive    bool          // PingReply
	NewRec   *Rec          // PingReply: record returned by RequestENR when the reported seq is higher
	RetBool  bool          // return value of add operations
	Pinged   enode.ID      // PingReply: which node the table chose to ping
	PingNode *enode.Node   // record the table pinged with
	// PingSeenAt is the step at whose start the ping was first seen pending (PingReply). The monitor may
	// hold a ping for several steps before answering, so deletions and re-additions can happen in between.
	PingSeenAt int
	// PingInc identifies the entry object the answered liveness check was started for (0: not known);
	// compare with VerifNodeSnap.Inc of the entry that carries the id now.
	PingInc uintptr
	// SeqAheadNoRecord: the answer announced a higher sequence number than the record pinged, and the record request
	// that follows fails (PingReply with Alive): the liveness check itself was answered.
	SeqAheadNoRecord bool
}

func (s Step) String() string {
	switch s.Kind {
	case Advance:
		return fmt.Sprintf("#%d advance %v", s.N, s.Delta)
	case PingReply:
		x := "dead"
		if s.Alive {
			x = "alive"
		}
		if s.NewRec != nil {
			x += " new-record " + s.NewRec.String()
		}
		if s.SeqAheadNoRecord {
			x += " (sequence ahead, record request fails)"
		}
		return fmt.Sprintf("#%d ping-reply %x.. %s", s.N, s.Pinged[:3], x)
	case TrackOK, TrackFail:
		return fmt.Sprintf("#%d %s %s found=%d", s.N, s.Kind, s.Rec, len(s.Found))
	case Refresh:
		return fmt.Sprintf("#%d refresh", s.N)
	}
	return fmt.Sprintf("#%d %s %s -> %v", s.N, s.Kind, s.Rec, s.RetBool)
}

type pingEvent struct {
	node  *enode.Node
	reply chan pingAnswer
}

type pingAnswer struct {
	seq uint64
	err error
}

// Driver owns one real table.
type Driver struct {
	Tab   *portalwire.Table
	Clock *mclock.Simulated
	Self  *enode.Node
	DB    *enode.DB

	pings chan pingEvent // PingFn entries, blocked until the monitor answers

	mu      sync.Mutex
	enrPlan map[enode.ID]*enode.Node // what RequestENR returns
	closed  bool
	// revalInc[id] = identity of the entry object the most recent liveness check of id was started for
	// (reported by the table loop through the verif hook before the ping is issued)
	revalInc map[enode.ID]uintptr
}

var (
	drivers   sync.Map // *portalwire.Table -> *Driver
	hookOnce  sync.Once
	revalHook = func(tab *portalwire.Table, id enode.ID, inc uintptr) {
		if v, ok := drivers.Load(tab); ok {
			d := v.(*Driver)
			d.mu.Lock()
			d.revalInc[id] = inc
			d.mu.Unlock()
		}
	}
)

// RevalInc returns the identity of the entry object the latest liveness check of id was started for (0: none seen).
func (d *Driver) RevalInc(id enode.ID) uintptr {
	d.mu.Lock()
	defer d.mu.Unlock()
	return d.revalInc[id]
}

var errDead = errors.New("scripted: no pong")

// New builds a table over a scripted transport with a virtual clock and starts its real loop.
func New(selfKeySeed int64, pingInterval time.Duration) (*Driver, error) {
	rng := rand.New(rand.NewSource(selfKeySeed))
	key := pnode.NewKey(rng)
	self := pnode.SignedNode(key, netip.MustParseAddr("10.99.0.1"), 30303, 1)
	db, err := enode.OpenDB("")
	if err != nil {
		return nil, err
	}
	d := &Driver{Clock: new(mclock.Simulated), Self: self, DB: db, pings: make(chan pingEvent, 64), enrPlan: map[enode.ID]*enode.Node{}, revalInc: map[enode.ID]uintptr{}}
	hookOnce.Do(func() { portalwire.VerifRevalStart.Store(&revalHook) })
	tr := &portalwire.VerifTransport{
		SelfFn: func() *enode.Node { return self },
		PingFn: func(n *enode.Node) (uint64, error) {
			ev := pingEvent{node: n, reply: make(chan pingAnswer, 1)}
			d.pings <- ev
			a := <-ev.reply
			return a.seq, a.err
		},
		RequestENRFn: func(n *enode.Node) (*enode.Node, error) {
			d.mu.Lock()
			defer d.mu.Unlock()
			if r, ok := d.enrPlan[n.ID()]; ok {
				return r, nil
			}
			return nil, errors.New("scripted: no record")
		},
	}
	cfg := portalwire.Config{PingInterval: pingInterval, RefreshInterval: 1000 * time.Hour, Clock: d.Clock, DisableInitCheck: true, Log: log.NewLogger(log.DiscardHandler())}
	tab, err := portalwire.VerifNewTable(tr, db, cfg)
	if err != nil {
		return nil, err
	}
	d.Tab = tab
	drivers.Store(tab, d)
	tab.VerifStart()
	tab.VerifWaitInit()
	return d, nil
}

// Close answers every pending ping (dead) and stops the loop.
func (d *Driver) Close() {
	d.mu.Lock()
	d.closed = true
	d.mu.Unlock()
	stop := make(chan struct{})
	go func() {
		for {
			select {
			case ev := <-d.pings:
				ev.reply <- pingAnswer{0, errDead}
			case <-stop:
				return
			}
		}
	}()
	d.Tab.VerifClose()
	drivers.Delete(d.Tab)
	close(stop)
	d.DB.Close()
}

// Barrier returns after the loop has completed at least one full iteration
// (including its revalidation scheduling pass) that started after the call.
func (d *Driver) Barrier() {
	d.Tab.VerifAddFound(d.Self, false) // the local node is refused immediately; it only synchronises
	d.Tab.VerifAddFound(d.Self, false)
}

func (d *Driver) Snap() portalwire.VerifTableSnap { return d.Tab.VerifSnapshot(true) }

// PendingPing waits up to wait for a revalidation ping the table has started.
func (d *Driver) PendingPing(wait time.Duration) (*pingEvent, bool) {
	select {
	case ev := <-d.pings:
		return &ev, true
	default:
	}
	if wait <= 0 {
		return nil, false
	}
	t := time.NewTimer(wait)
	defer t.Stop()
	select {
	case ev := <-d.pings:
		return &ev, true
	case <-t.C:
		return nil, false
	}
}

// AnswerPing releases a pending ping with the scripted outcome and waits until
// the table has processed the response (observable change of the pinged node,
// or a bounded number of loop iterations when the node is no longer an entry).
func (d *Driver) AnswerPing(ev *pingEvent, alive bool, newRec *enode.Node) (handled bool) {
	return d.AnswerPingSeq(ev, alive, newRec, false)
}

// ForgetENR makes the next record request for id fail.
func (d *Driver) ForgetENR(id enode.ID) {
	d.mu.Lock()
	delete(d.enrPlan, id)
	d.mu.Unlock()
}

// AnswerPingSeq: with seqAhead the answer carries a sequence number above the pinged record's although no newer
// record will be served.
func (d *Driver) AnswerPingSeq(ev *pingEvent, alive bool, newRec *enode.Node, seqAhead bool) (handled bool) {
	id := ev.node.ID()
	before := d.nodeState(id)
	seq := ev.node.Seq()
	if seqAhead {
		seq += 3
	}
	if newRec != nil {
		d.mu.Lock()
		d.enrPlan[id] = newRec
		d.mu.Unlock()
		seq = newRec.Seq()
	}
	if alive {
		ev.reply <- pingAnswer{seq, nil}
	} else {
		ev.reply <- pingAnswer{0, errDead}
	}
	moved := false
	if before.present {
		for _, b := range d.Tab.VerifSnapshot(false).Buckets {
			for _, e := range b.Entries {
				if e.ID == id && (e.IP != ev.node.IPAddr() || e.UDP != ev.node.UDP()) {
					moved = true // the entry has another endpoint than the one pinged: the table ignores the result
				}
			}
		}
	}
	if started := d.RevalInc(id); !before.present || moved || (started != 0 && started != before.inc) {
		// removed (or removed and added again as a new entry object) while being checked: the response is
		// dropped by the table, nothing to observe
		for i := 0; i < 3; i++ {
			d.Barrier()
			time.Sleep(200 * time.Microsecond)
		}
		return true
	}
	deadline := time.Now().Add(5 * time.Second)
	for time.Now().Before(deadline) {
		d.Barrier()
		if d.nodeState(id) != before {
			d.Barrier()
			return true
		}
		time.Sleep(100 * time.Microsecond)
	}
	return false
}

type nodeState struct {
	present bool
	checks  uint
	live    bool
	seq     uint64
	list    string
	inc     uintptr
}

func (d *Driver) nodeState(id enode.ID) nodeState {
	s := d.Tab.VerifSnapshot(false)
	for _, b := range s.Buckets {
		for _, e := range b.Entries {
			if e.ID == id {
				return nodeState{true, e.Checks, e.Live, e.Seq, e.RevalList, e.Inc}
			}
		}
	}
	return nodeState{}
}

func (ev *pingEvent) Node() *enode.Node { return ev.node }

// ---------------------------------------------------------------- pool generator

// Pool is a small colliding universe of ids, addresses and sequence numbers.
type Pool struct {
	IDs   []enode.ID
	IPs   []netip.Addr
	Ports []int
	Wide  bool // ids spread over many buckets, most of them homed in one public /24 (reaches the table-wide IP limit)
}

// NewPool concentrates ids in a few buckets so that buckets fill up, with
// addresses from a handful of /24s (public, LAN, loopback).
func NewPool(self enode.ID, rng *rand.Rand) *Pool {
	p := &Pool{}
	nIDs := 40 + rng.Intn(80)
	dists := []int{256, 255, 254, 253, 252, 240, 239, 200, 100}
	// 2..4 buckets get most ids
	hot := append([]int{}, dists[:2+rng.Intn(3)]...)
	if rng.Intn(4) == 0 {
		p.Wide = true
		hot = []int{256, 255, 254, 253, 252, 251, 250, 249}
	}
	for len(p.IDs) < nIDs {
		dist := hot[rng.Intn(len(hot))]
		if rng.Intn(10) == 0 {
			dist = dists[rng.Intn(len(dists))]
		}
		p.IDs = append(p.IDs, pnode.IDAtLogDist(self, dist, rng))
	}
	nets := [][3]byte{{8, 8, 8}, {1, 2, 3}, {44, 55, 66}, {200, 1, 1}, {10, 1, 1}, {192, 168, 5}, {127, 0, 0}}
	for _, n := range nets {
		for h := 1; h <= 14; h++ {
			p.IPs = append(p.IPs, netip.AddrFrom4([4]byte{n[0], n[1], n[2], byte(h)}))
		}
	}
	// beyond index 98: IPv6 addresses from two public /24s (the first two nets share one), an IPv6 LAN net, and the
	// IPv4-mapped form (::ffff:a.b.c.d) of the first two public IPv4 nets and of the first LAN net. A mapped address is
	// another address than its plain form for everything the table does (record comparison, /24 accounting).
	for _, pre := range []string{"2a01:4f8:1::", "2a01:4f9:2::", "2607:f8b0:4::", "fd00:1:2::"} {
		for h := 1; h <= 6; h++ {
			p.IPs = append(p.IPs, netip.MustParseAddr(fmt.Sprintf("%s%x", pre, h)))
		}
	}
	for _, n := range [][3]byte{{8, 8, 8}, {1, 2, 3}, {10, 1, 1}} {
		for h := 1; h <= 14; h++ {
			p.IPs = append(p.IPs, netip.AddrFrom16(netip.AddrFrom4([4]byte{n[0], n[1], n[2], byte(h)}).As16()))
		}
	}
	p.Ports = []int{30303, 30304, 9000}
	return p
}

// Rec draws a record version for pool id i.
func (p *Pool) Rec(i int, rng *rand.Rand) Rec {
	id := p.IDs[i]
	var ip netip.Addr
	switch rng.Intn(10) {
	case 0, 1, 2, 3, 4, 5, 6, 7: // a stable "home" address per id: half on LAN/loopback (exempt from the limits, so buckets fill), half on few public /24s (so the limits bite)
		if p.Wide && id[27]%5 != 0 {
			ip = p.IPs[int(id[31])%14] // 8.8.8.x
		} else if id[29]%2 == 0 {
			ip = p.IPs[56+(int(id[31])+int(id[30]))%42] // 10.1.1.x, 192.168.5.x, 127.0.0.x
		} else {
			ip = p.IPs[int(id[31])%28] // the first two public /24s
			if id[28]%3 == 0 {
				ip = p.IPs[28+int(id[31])%28]
			}
		}
	default:
		ip = p.IPs[rng.Intn(len(p.IPs))]
	}
	switch rng.Intn(16) {
	case 0: // the same address in the other representation (plain <-> IPv4-mapped)
		if ip.Is4() {
			ip = netip.AddrFrom16(ip.As16())
		} else if ip.Is4In6() {
			ip = ip.Unmap()
		}
	case 1: // an IPv6 home for this id (few hosts, so that ids share addresses and /24s)
		ip = p.IPs[98+(int(id[31])+int(id[30]))%24]
	case 2: // another host of the same IPv6 net as that home: a move within IPv6, port unchanged
		ip = p.IPs[98+((int(id[31])+int(id[30]))%24/6)*6+rng.Intn(6)]
	}
	seq := uint64(rng.Intn(4))
	port := p.Ports[0]
	if rng.Intn(5) == 0 {
		port = p.Ports[rng.Intn(len(p.Ports))]
	}
	return Rec{ID: id, Seq: seq, IP: ip, Port: port, Node: pnode.NullNode(id, ip, port, seq)}
}

// AnswerPingAsync releases a pending ping without waiting for its processing (concurrent mode).
func (d *Driver) AnswerPingAsync(ev *pingEvent, alive bool, newRec *enode.Node) {
	seq := ev.node.Seq()
	if newRec != nil {
		d.mu.Lock()
		d.enrPlan[ev.node.ID()] = newRec
		d.mu.Unlock()
		seq = newRec.Seq()
	}
	if alive {
		ev.reply <- pingAnswer{seq, nil}
	} else {
		ev.reply <- pingAnswer{0, errDead}
	}
}
