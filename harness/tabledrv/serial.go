package tabledrv

import (
	"fmt"
	"math/rand"
	"net/netip"
	"time"

	"github.com/ethereum/go-ethereum/p2p/enode"
	"github.com/ethereum/go-ethereum/p2p/netutil"
	"github.com/zen-eth/shisui/portalwire"
	"verifharness/pnode"
)

// Observer is called after every step with snapshots taken under the table's mutex.
type Observer interface {
	OnStep(st Step, before, after portalwire.VerifTableSnap)
}

type SerialStats struct {
	Steps        int
	Kinds        map[string]int
	PingsUnacked int // ping replies whose processing could not be observed within the watchdog
	SelfRecords  int // records with the local node's id fed to add / track-request steps
	Swaps        int // delete + re-add of an entry performed while its liveness check was in flight
	Trace        []string
}

const PingInterval = 10 * time.Second

// SerialOpt selects a workload profile. LongLived: three nodes, almost only clock advances and answered liveness
// checks (one in 400 unanswered), so that single entries collect hundreds of checks.
type SerialOpt struct {
	LongLived bool
}

// RunSerial executes one seeded history against a fresh table.
func RunSerial(rng *rand.Rand, nSteps int, obs Observer) (SerialStats, error) {
	return RunSerialOpt(rng, nSteps, obs, SerialOpt{})
}

func RunSerialOpt(rng *rand.Rand, nSteps int, obs Observer, opt SerialOpt) (SerialStats, error) {
	stats := SerialStats{Kinds: map[string]int{}}
	d, err := New(rng.Int63(), PingInterval)
	if err != nil {
		return stats, err
	}
	defer d.Close()
	pool := NewPool(d.Self.ID(), rng)
	if opt.LongLived {
		pool.IDs = pool.IDs[:3]
	}
	lastRec := map[enode.ID]Rec{}
	victim := -1
	victimLeft := 0
	afterAdvance := false
	type heldPing struct {
		ev     *pingEvent
		seenAt int
		inc    uintptr
	}
	var held []heldPing
	var swapRec Rec
	swapStage := 0
	entriesOf := func(s portalwire.VerifTableSnap) []portalwire.VerifNodeSnap {
		var out []portalwire.VerifNodeSnap
		for _, b := range s.Buckets {
			out = append(out, b.Entries...)
		}
		return out
	}
	for n := 0; n < nSteps; n++ {
		st := Step{N: n}
		before := d.Snap()
		wait := time.Duration(0)
		if afterAdvance {
			wait = 4 * time.Millisecond
		}
		// a newly started ping is sometimes held back for a few steps, so that other operations
		// (deletes, re-additions, record updates) land while the liveness check is in flight
		for {
			ev, ok := d.PendingPing(wait)
			if !ok {
				break
			}
			held = append(held, heldPing{ev, n, d.RevalInc(ev.node.ID())})
			wait = 0
		}
		// directed schedule: while a liveness check of an entry is in flight, that entry is deleted and the
		// same record added again, so that the answer arrives for an entry object that has been replaced
		if !opt.LongLived && swapStage == 0 && len(held) > 0 && rng.Intn(12) == 0 {
			for _, e := range entriesOf(before) {
				if e.ID == held[0].ev.node.ID() {
					swapRec, swapStage = Rec{ID: e.ID, Seq: e.Seq, IP: e.IP, Port: e.UDP, Node: e.Node}, 1
				}
			}
		}
		var ev *pingEvent
		seenAt := 0
		var inc uintptr
		if swapStage == 0 && len(held) > 0 && (n-held[0].seenAt >= 6 || len(held) >= 3 || rng.Intn(3) != 0) {
			ev, seenAt, inc = held[0].ev, held[0].seenAt, held[0].inc
			held = held[1:]
		}
		if ev != nil {
			st.PingSeenAt = seenAt
			st.PingInc = inc
			st.Kind = PingReply
			st.Pinged = ev.node.ID()
			st.PingNode = ev.node
			k := rng.Intn(100)
			if opt.LongLived {
				k = 0
				if rng.Intn(400) == 0 {
					k = 80
				}
			}
			switch {
			case k < 74:
				st.Alive = true
			case k < 88:
				st.Alive = false
			case k >= 97 && !opt.LongLived: // alive, announces a newer sequence number, but the record request then fails
				st.Alive = true
				st.SeqAheadNoRecord = true
			default: // alive and announcing a newer record
				st.Alive = true
				cur := ev.node
				nr := Rec{ID: cur.ID(), Seq: cur.Seq() + 1 + uint64(rng.Intn(2)), IP: cur.IPAddr(), Port: cur.UDP()}
				switch rng.Intn(4) {
				case 0:
					nr.IP = pool.IPs[rng.Intn(len(pool.IPs))]
				case 1:
					nr.Port = cur.UDP() + 1
				case 2:
					nr.IP = pool.IPs[rng.Intn(len(pool.IPs))]
					nr.Port = cur.UDP() + 1
				}
				nr.Node = pnode.NullNode(nr.ID, nr.IP, nr.Port, nr.Seq)
				st.NewRec = &nr
			}
			var newNode *enode.Node
			if st.NewRec != nil {
				newNode = st.NewRec.Node
			}
			if st.SeqAheadNoRecord {
				d.ForgetENR(ev.node.ID())
			}
			if !d.AnswerPingSeq(ev, st.Alive, newNode, st.SeqAheadNoRecord) {
				stats.PingsUnacked++
			}
			afterAdvance = true // several pings may be pending
		} else if swapStage == 1 {
			afterAdvance = false
			st.Kind, st.Rec = Delete, swapRec
			d.Tab.VerifDelete(swapRec.Node)
			swapStage = 2
		} else if swapStage == 2 {
			afterAdvance = false
			st.Rec = swapRec
			if rng.Intn(2) == 0 {
				st.Kind = AddFound
				st.RetBool = d.Tab.VerifAddFound(swapRec.Node, false)
			} else {
				st.Kind = AddInbound
				st.RetBool = d.Tab.VerifAddInbound(swapRec.Node)
			}
			swapStage = 0
			stats.Swaps++
		} else {
			afterAdvance = false
			k := rng.Intn(100)
			if opt.LongLived {
				if n < 6 || rng.Intn(250) == 0 {
					k = rng.Intn(42) // (re-)add the three nodes
				} else {
					k = 80 // advance
				}
			}
			pick := func() Rec {
				i := rng.Intn(len(pool.IDs))
				if victimLeft > 0 && victim >= 0 && rng.Intn(2) == 0 {
					i = victim
				}
				r := pool.Rec(i, rng)
				if rng.Intn(40) == 0 {
					// a record that carries the local node's own id (peers do report us back to ourselves)
					r.ID = d.Self.ID()
					r.Node = pnode.NullNode(r.ID, r.IP, r.Port, r.Seq)
					stats.SelfRecords++
					return r
				}
				if old, ok := lastRec[r.ID]; ok && rng.Intn(3) != 0 {
					// mostly keep the endpoint, sometimes bump only the sequence number
					r = Rec{ID: old.ID, Seq: old.Seq, IP: old.IP, Port: old.Port}
					if rng.Intn(3) == 0 {
						r.Seq = uint64(rng.Intn(5))
					}
					r.Node = pnode.NullNode(r.ID, r.IP, r.Port, r.Seq)
				}
				lastRec[r.ID] = r
				return r
			}
			switch {
			case k < 30:
				st.Kind, st.Rec = AddFound, pick()
				st.RetBool = d.Tab.VerifAddFound(st.Rec.Node, false)
			case k < 42:
				st.Kind, st.Rec = AddFoundLive, pick()
				st.RetBool = d.Tab.VerifAddFound(st.Rec.Node, true)
			case k < 58:
				st.Kind, st.Rec = AddInbound, pick()
				st.RetBool = d.Tab.VerifAddInbound(st.Rec.Node)
			case k < 62:
				st.Kind = Delete
				ents := entriesOf(before)
				if len(ents) > 0 && rng.Intn(4) != 0 {
					e := ents[rng.Intn(len(ents))]
					st.Rec = Rec{ID: e.ID, Seq: e.Seq, IP: e.IP, Port: e.UDP, Node: e.Node}
				} else {
					st.Rec = pick()
				}
				d.Tab.VerifDelete(st.Rec.Node)
			case k < 76:
				// lookup feedback; failures are concentrated on a victim so that streaks of five happen
				ok := rng.Intn(4) == 0
				ents := entriesOf(before)
				if victimLeft <= 0 && len(ents) > 0 {
					e := ents[rng.Intn(len(ents))]
					for i, id := range pool.IDs {
						if id == e.ID {
							victim = i
						}
					}
					victimLeft = 6 + rng.Intn(6)
				}
				var rec Rec
				found := false
				if victim >= 0 {
					for _, e := range ents {
						if e.ID == pool.IDs[victim] {
							rec = Rec{ID: e.ID, Seq: e.Seq, IP: e.IP, Port: e.UDP, Node: e.Node}
							found = true
						}
					}
				}
				if !found || rng.Intn(5) == 0 {
					rec = pick()
				}
				victimLeft--
				st.Rec = rec
				st.Kind = TrackFail
				if ok {
					st.Kind = TrackOK
					for i := 0; i < 1+rng.Intn(3); i++ {
						st.Found = append(st.Found, pick())
					}
				} else if rng.Intn(6) == 0 {
					st.Found = append(st.Found, pick()) // failure reports may still carry nodes
				}
				var fn []*enode.Node
				for _, f := range st.Found {
					fn = append(fn, f.Node)
				}
				d.Tab.VerifTrackRequest(rec.Node, ok, fn)
				d.Barrier()
			case k < 99:
				st.Kind = Advance
				st.Delta = time.Duration(float64(PingInterval) * (0.3 + 3*rng.Float64()))
				d.Clock.Run(st.Delta)
				d.Barrier()
				afterAdvance = true
			default:
				st.Kind = Refresh
				<-d.Tab.VerifRefresh()
				d.Barrier()
			}
		}
		after := d.Snap()
		stats.Steps++
		stats.Kinds[st.Kind.String()]++
		if len(stats.Trace) < 4000 {
			stats.Trace = append(stats.Trace, st.String())
		}
		obs.OnStep(st, before, after)
	}
	for _, h := range held { // release what is still held so that the table's goroutines can finish
		h.ev.reply <- pingAnswer{0, errDead}
	}
	return stats, nil
}

// ---------------------------------------------------------------- structural invariants (C07)

// BucketIndexRef is the reference mapping of log-distance to the 17 buckets.
func BucketIndexRef(self, id enode.ID) int {
	d := enode.LogDist(self, id)
	if d <= 240 {
		return 0
	}
	return d - 240
}

type InvStats struct {
	MaxEntries, MaxRepl     int
	MaxBucketSubnet         int // max entries of one non-LAN /24 in a bucket
	MaxTableSubnet          int // max entries of one non-LAN /24 in the table
	MaxBucketSubnetWithRepl int // informational: entries + replacements
	Nodes                   int
}

// CheckInvariants walks one snapshot and returns the violated invariants.
func CheckInvariants(s portalwire.VerifTableSnap) (viol []string, st InvStats) {
	seen := map[enode.ID]string{}
	tableNets := map[netip.Prefix]int{}
	for _, b := range s.Buckets {
		if len(b.Entries) > portalwire.VerifBucketSize {
			viol = append(viol, fmt.Sprintf("bucket-overfull: bucket %d holds %d entries", b.Index, len(b.Entries)))
		}
		if len(b.Replacements) > portalwire.VerifMaxReplacements {
			viol = append(viol, fmt.Sprintf("replacements-overfull: bucket %d holds %d replacements", b.Index, len(b.Replacements)))
		}
		st.MaxEntries = max(st.MaxEntries, len(b.Entries))
		st.MaxRepl = max(st.MaxRepl, len(b.Replacements))
		nets := map[netip.Prefix]int{}
		netsAll := map[netip.Prefix]int{}
		check := func(n portalwire.VerifNodeSnap, where string) {
			if n.ID == s.Self {
				viol = append(viol, fmt.Sprintf("self-in-table: the local id is in bucket %d %s", b.Index, where))
			}
			if prev, ok := seen[n.ID]; ok {
				viol = append(viol, fmt.Sprintf("duplicate-id: %x.. appears in %s and in bucket %d %s", n.ID[:4], prev, b.Index, where))
			}
			seen[n.ID] = fmt.Sprintf("bucket %d %s", b.Index, where)
			if want := BucketIndexRef(s.Self, n.ID); want != b.Index {
				viol = append(viol, fmt.Sprintf("wrong-bucket: %x.. at log-distance %d sits in bucket %d, expected %d", n.ID[:4], enode.LogDist(s.Self, n.ID), b.Index, want))
			}
		}
		for _, e := range b.Entries {
			check(e, "entries")
			st.Nodes++
			if e.IP.IsValid() && !netutil.AddrIsLAN(e.IP) {
				p, _ := e.IP.Prefix(24)
				nets[p]++
				netsAll[p]++
				tableNets[p]++
			}
		}
		for _, e := range b.Replacements {
			check(e, "replacements")
			if e.IP.IsValid() && !netutil.AddrIsLAN(e.IP) {
				p, _ := e.IP.Prefix(24)
				netsAll[p]++
			}
		}
		for p, c := range nets {
			st.MaxBucketSubnet = max(st.MaxBucketSubnet, c)
			if c > 2 {
				viol = append(viol, fmt.Sprintf("bucket-ip-limit: bucket %d holds %d entries from %s", b.Index, c, p))
			}
		}
		for _, c := range netsAll {
			st.MaxBucketSubnetWithRepl = max(st.MaxBucketSubnetWithRepl, c)
		}
	}
	for p, c := range tableNets {
		st.MaxTableSubnet = max(st.MaxTableSubnet, c)
		if c > 10 {
			viol = append(viol, fmt.Sprintf("table-ip-limit: the table holds %d entries from %s", c, p))
		}
	}
	return viol, st
}
