package pnode

import (
	"sync"

	"github.com/holiman/uint256"
	"github.com/zen-eth/shisui/storage"
)

// KVStore is a ContentStorage whose contents and radius the monitor controls
// (content id -> value). It stands in for a store when the property under test
// is about the protocol layer, not about persistence.
type KVStore struct {
	mu     sync.Mutex
	db     map[string][]byte
	radius *uint256.Int
	Gets   int
}

func NewKVStore() *KVStore {
	return &KVStore{db: map[string][]byte{}, radius: storage.MaxDistance.Clone()}
}

func (s *KVStore) Get(k, id []byte) ([]byte, error) {
	s.mu.Lock()
	defer s.mu.Unlock()
	s.Gets++
	if v, ok := s.db[string(id)]; ok {
		return v, nil
	}
	return nil, storage.ErrContentNotFound
}

func (s *KVStore) Put(k, id, v []byte) error {
	s.mu.Lock()
	defer s.mu.Unlock()
	s.db[string(id)] = append([]byte(nil), v...)
	return nil
}

func (s *KVStore) Has(id []byte) bool {
	s.mu.Lock()
	defer s.mu.Unlock()
	_, ok := s.db[string(id)]
	return ok
}

func (s *KVStore) Radius() *uint256.Int {
	s.mu.Lock()
	defer s.mu.Unlock()
	return s.radius.Clone()
}

func (s *KVStore) SetRadius(r *uint256.Int) {
	s.mu.Lock()
	s.radius = r.Clone()
	s.mu.Unlock()
}

func (s *KVStore) Close() error { return nil }
