package pnode

import (
	"context"
	"crypto/ecdsa"
	"fmt"
	"math/rand"
	"net"
	"net/netip"
	"sync"
	"time"

	"github.com/ethereum/go-ethereum/crypto"
	"github.com/ethereum/go-ethereum/log"
	"github.com/ethereum/go-ethereum/p2p/discover"
	"github.com/ethereum/go-ethereum/p2p/enode"
	"github.com/ethereum/go-ethereum/p2p/enr"
	cache "github.com/go-pkgz/expirable-cache/v3"
	"github.com/zen-eth/shisui/portalwire"
	"github.com/zen-eth/shisui/storage"
	utp "github.com/zen-eth/utp-go"
)

// Quiet turns shisui / go-ethereum logging off (error-level logs are part of
// normal rejection paths and would dominate run time).
func Quiet() {
	log.SetDefault(log.NewLogger(log.DiscardHandler()))
}

// NewKey derives a secp256k1 key deterministically from rng.
func NewKey(rng *rand.Rand) *ecdsa.PrivateKey {
	for {
		var b [32]byte
		rng.Read(b[:])
		k, err := crypto.ToECDSA(b[:])
		if err == nil {
			return k
		}
	}
}

// SignedNode builds a v4-signed record.
func SignedNode(key *ecdsa.PrivateKey, ip netip.Addr, udp int, seq uint64, entries ...enr.Entry) *enode.Node {
	var r enr.Record
	if ip.IsValid() {
		if ip.Is4() {
			r.Set(enr.IPv4Addr(ip))
		} else {
			r.Set(enr.IPv6Addr(ip))
		}
	}
	if udp != 0 {
		r.Set(enr.UDP(udp))
	}
	for _, e := range entries {
		r.Set(e)
	}
	r.SetSeq(seq)
	if err := enode.SignV4(&r, key); err != nil {
		panic(err)
	}
	n, err := enode.New(enode.ValidSchemes, &r)
	if err != nil {
		panic(err)
	}
	return n
}

// NullNode builds a record with an arbitrary id under the "null" identity scheme
// (accepted by the table, which never verifies signatures itself).
func NullNode(id enode.ID, ip netip.Addr, udp int, seq uint64) *enode.Node {
	var r enr.Record
	if ip.IsValid() {
		if ip.Is4() {
			r.Set(enr.IPv4Addr(ip))
		} else {
			r.Set(enr.IPv6Addr(ip))
		}
	}
	if udp != 0 {
		r.Set(enr.UDP(udp))
	}
	r.SetSeq(seq)
	return enode.SignNull(&r, id)
}

// IDAtLogDist returns an id whose log-distance from base is exactly d (1..256),
// with the remaining low bits taken from rng.
func IDAtLogDist(base enode.ID, d int, rng *rand.Rand) enode.ID {
	if d == 0 {
		return base
	}
	var x enode.ID
	rng.Read(x[:])
	// clear bits above position d-1 (0 = least significant), set bit d-1
	for bit := 255; bit >= d; bit-- {
		x[31-bit/8] &^= 1 << (bit % 8)
	}
	x[31-(d-1)/8] |= 1 << ((d - 1) % 8)
	var out enode.ID
	for i := range out {
		out[i] = base[i] ^ x[i]
	}
	return out
}

type versionsEntry []uint8

func (versionsEntry) ENRKey() string { return "pv" }

// RawEntry sets an arbitrary pre-encoded RLP value under a key.
type RawEntry struct {
	Key string
	Val any
}

type NodeOpts struct {
	Key          *ecdsa.PrivateKey
	Addr         netip.AddrPort
	Network      portalwire.ProtocolId
	Versions     []uint8 // advertised "pv"; nil = do not advertise
	Storage      storage.ContentStorage
	MaxUtp       int
	QueueCap     int
	RespTimeout  time.Duration
	Bootnodes    []*enode.Node
	VersionsTTL  time.Duration
	InitCheck    bool // run the table's initial refresh (default off)
	ExtraEntries []enr.Entry
	NoStart      bool // the caller starts the protocol itself (e.g. through history.Network.Start)
}

// Node is a full real stack: discv5 + uTP + PortalProtocol on a hub connection.
type Node struct {
	P      *portalwire.PortalProtocol
	Disc   *discover.UDPv5
	Local  *enode.LocalNode
	Conn   *Conn
	Utp    *portalwire.UtpTransportService
	Queue  chan *portalwire.ContentElement
	Key    *ecdsa.PrivateKey
	VCache cache.Cache[*enode.Node, uint8]
	DB     *enode.DB
	Conf   *portalwire.PortalProtocolConfig
	stop   sync.Once
}

func (n *Node) Self() *enode.Node { return n.Local.Node() }
func (n *Node) ID() enode.ID      { return n.Local.ID() }

func (h *Hub) StartNode(o NodeOpts) (*Node, error) {
	conn, err := h.Listen(o.Addr)
	if err != nil {
		return nil, err
	}
	conf := portalwire.DefaultPortalProtocolConfig()
	conf.ListenAddr = o.Addr.String()
	conf.NAT = nil
	conf.BootstrapNodes = o.Bootnodes
	conf.MaxUtpConnSize = o.MaxUtp
	// small caches: many nodes live in one process
	conf.RadiusCacheSize = 1 << 20
	conf.CapabilitiesCacheSize = 1 << 20
	conf.EphemeralHeaderCountCacheSize = 1 << 20
	conf.ContentKeyCacheSize = 1 << 20
	if o.VersionsTTL != 0 {
		conf.VersionsCacheTTL = o.VersionsTTL
	}
	db, err := enode.OpenDB("")
	if err != nil {
		return nil, err
	}
	ln := enode.NewLocalNode(db, o.Key)
	ln.SetStaticIP(o.Addr.Addr().AsSlice())
	ln.SetFallbackUDP(int(o.Addr.Port()))
	ln.Set(portalwire.Tag)
	if o.Versions != nil {
		ln.Set(versionsEntry(o.Versions))
	}
	for _, e := range o.ExtraEntries {
		ln.Set(e)
	}
	dcfg := discover.Config{PrivateKey: o.Key, Bootnodes: o.Bootnodes, V5RespTimeout: o.RespTimeout}
	disc, err := discover.ListenV5(conn, ln, dcfg)
	if err != nil {
		return nil, err
	}
	utp := portalwire.NewZenEthUtp(context.Background(), conf, disc, conn)
	qc := o.QueueCap
	if qc == 0 {
		qc = 50
	}
	queue := make(chan *portalwire.ContentElement, qc)
	vc := cache.NewCache[*enode.Node, uint8]().WithMaxKeys(conf.VersionsCacheSize).WithTTL(conf.VersionsCacheTTL)
	st := o.Storage
	if st == nil {
		st = &storage.MockStorage{Db: map[string][]byte{}}
	}
	netw := o.Network
	if netw == nil {
		netw = portalwire.History
	}
	p, err := portalwire.NewPortalProtocol(conf, netw, o.Key, conn, ln, disc, utp, st, queue, vc,
		portalwire.WithDisableTableInitCheckOption(!o.InitCheck))
	if err != nil {
		return nil, err
	}
	if !o.NoStart {
		if err := p.Start(); err != nil {
			return nil, err
		}
	}
	return &Node{P: p, Disc: disc, Local: ln, Conn: conn, Utp: utp, Queue: queue, Key: o.Key, VCache: vc, DB: db, Conf: conf}, nil
}

func (n *Node) Stop() {
	n.stop.Do(func() {
		n.P.Stop()
		n.Utp.Stop()
		n.Disc.Close()
		n.DB.Close()
	})
}

// Adversary is a real discv5 endpoint (valid session crypto) whose talk
// handlers are scripted by the monitor. It also owns a real uTP socket so it
// can dial announced connection ids and stream arbitrary bytes.
type Adversary struct {
	Disc  *discover.UDPv5
	Local *enode.LocalNode
	Conn  *Conn
	Key   *ecdsa.PrivateKey
	Utp   *portalwire.UtpTransportService
	DB    *enode.DB
	stop  sync.Once
}

type AdvOpts struct {
	NoEndpoint  bool // the adversary's ENR carries neither ip nor udp (it still talks from Addr)
	Key         *ecdsa.PrivateKey
	Addr        netip.AddrPort
	Versions    []uint8
	RespTimeout time.Duration
	WithUtp     bool
	Entries     []enr.Entry
}

func (h *Hub) StartAdversary(o AdvOpts) (*Adversary, error) {
	conn, err := h.Listen(o.Addr)
	if err != nil {
		return nil, err
	}
	db, err := enode.OpenDB("")
	if err != nil {
		return nil, err
	}
	ln := enode.NewLocalNode(db, o.Key)
	if !o.NoEndpoint {
		ln.SetStaticIP(o.Addr.Addr().AsSlice())
		ln.SetFallbackUDP(int(o.Addr.Port()))
	}
	if o.Versions != nil {
		ln.Set(versionsEntry(o.Versions))
	}
	for _, e := range o.Entries {
		ln.Set(e)
	}
	disc, err := discover.ListenV5(conn, ln, discover.Config{PrivateKey: o.Key, V5RespTimeout: o.RespTimeout})
	if err != nil {
		return nil, err
	}
	a := &Adversary{Disc: disc, Local: ln, Conn: conn, Key: o.Key, DB: db}
	if o.WithUtp {
		conf := portalwire.DefaultPortalProtocolConfig()
		conf.ListenAddr = o.Addr.String()
		conf.MaxUtpConnSize = 1 << 20
		a.Utp = portalwire.NewZenEthUtp(context.Background(), conf, disc, conn)
		if err := a.Utp.Start(); err != nil {
			return nil, err
		}
	}
	return a, nil
}

func (a *Adversary) Self() *enode.Node { return a.Local.Node() }
func (a *Adversary) ID() enode.ID      { return a.Local.ID() }

func (a *Adversary) OnTalk(proto string, fn func(from *enode.Node, addr *net.UDPAddr, msg []byte) []byte) {
	a.Disc.RegisterTalkHandler(proto, fn)
}

func (a *Adversary) Talk(target *enode.Node, proto string, msg []byte) ([]byte, error) {
	return a.Disc.TalkRequest(target, proto, msg)
}

func (a *Adversary) Stop() {
	a.stop.Do(func() {
		if a.Utp != nil {
			a.Utp.Stop()
		}
		a.Disc.Close()
		a.DB.Close()
	})
}

// Addr4 is a convenience constructor.
func Addr4(a, b, c, d byte, port uint16) netip.AddrPort {
	return netip.AddrPortFrom(netip.AddrFrom4([4]byte{a, b, c, d}), port)
}

func MustAddr(s string) netip.AddrPort {
	ap, err := netip.ParseAddrPort(s)
	if err != nil {
		panic(fmt.Sprintf("bad addr %q: %v", s, err))
	}
	return ap
}

// BareProtocol builds an unstarted PortalProtocol (no sockets) whose only use is
// calling helpers that depend on configuration (version negotiation, framing).
func BareProtocol(key *ecdsa.PrivateKey, versions []uint8, netw portalwire.ProtocolId, st storage.ContentStorage) (*portalwire.PortalProtocol, *enode.LocalNode, cache.Cache[*enode.Node, uint8], error) {
	db, err := enode.OpenDB("")
	if err != nil {
		return nil, nil, nil, err
	}
	ln := enode.NewLocalNode(db, key)
	ln.SetStaticIP(net.IP{127, 0, 0, 1})
	ln.SetFallbackUDP(9009)
	if versions != nil {
		ln.Set(versionsEntry(versions))
	}
	conf := portalwire.DefaultPortalProtocolConfig()
	conf.RadiusCacheSize = 1 << 20
	conf.CapabilitiesCacheSize = 1 << 20
	conf.EphemeralHeaderCountCacheSize = 1 << 20
	conf.ContentKeyCacheSize = 1 << 20
	vc := cache.NewCache[*enode.Node, uint8]().WithMaxKeys(conf.VersionsCacheSize).WithTTL(conf.VersionsCacheTTL)
	if st == nil {
		st = &storage.MockStorage{Db: map[string][]byte{}}
	}
	p, err := portalwire.NewPortalProtocol(conf, netw, key, nil, ln, nil, nil, st, make(chan *portalwire.ContentElement, 50), vc)
	return p, ln, vc, err
}

// VersionsEntry returns the ENR entry advertising protocol versions.
func VersionsEntry(v []uint8) enr.Entry { return versionsEntry(v) }

// ShortUtpConfig returns uTP timers suited to the in-memory fabric: with
// utp-go's defaults about half of the small transfers stall for 5 s on a perfect
// link (delayed ACK / retransmit timers); these keep transfers in the millisecond range.
func ShortUtpConfig() *utp.ConnectionConfig {
	c := utp.NewConnectionConfig()
	c.InitialTimeout = 150 * time.Millisecond
	c.MinTimeout = 60 * time.Millisecond
	c.MaxTimeout = time.Second
	c.MaxIdleTimeout = 4 * time.Second
	return c
}
