// Package pnode provides an in-memory UDP fabric (Hub) on which real
// discover.UDPv5 + uTP + PortalProtocol stacks and scripted adversary peers run.
package pnode

import (
	"errors"
	"net"
	"net/netip"
	"sync"
	"sync/atomic"
	"time"
)

// Datagram is one packet seen by the hub.
type Datagram struct {
	Seq      uint64
	Src, Dst netip.AddrPort
	Len      int
}

// Verdict of a hub policy for one datagram.
type Verdict struct {
	Drop  bool
	Dup   bool
	Delay time.Duration
}

type Hub struct {
	mu     sync.RWMutex
	conns  map[netip.AddrPort]*Conn
	seq    atomic.Uint64
	maxLen atomic.Int64
	count  atomic.Int64
	policy atomic.Pointer[func(d Datagram) Verdict]
	tap    atomic.Pointer[func(d Datagram, payload []byte)]
}

func NewHub() *Hub { return &Hub{conns: map[netip.AddrPort]*Conn{}} }

// SetPolicy installs a (seeded, deterministic in its inputs) fault policy.
func (h *Hub) SetPolicy(f func(d Datagram) Verdict) {
	if f == nil {
		h.policy.Store(nil)
		return
	}
	h.policy.Store(&f)
}

// SetTap installs an observer called for every datagram before delivery.
func (h *Hub) SetTap(f func(d Datagram, payload []byte)) {
	if f == nil {
		h.tap.Store(nil)
		return
	}
	h.tap.Store(&f)
}

func (h *Hub) MaxDatagram() int { return int(h.maxLen.Load()) }
func (h *Hub) Datagrams() int64 { return h.count.Load() }
func (h *Hub) ResetStats()      { h.maxLen.Store(0); h.count.Store(0) }

type pkt struct {
	b    []byte
	from netip.AddrPort
}

type Conn struct {
	hub    *Hub
	addr   netip.AddrPort
	in     chan pkt
	closed chan struct{}
	once   sync.Once
}

func (h *Hub) Listen(addr netip.AddrPort) (*Conn, error) {
	h.mu.Lock()
	defer h.mu.Unlock()
	if _, ok := h.conns[addr]; ok {
		return nil, errors.New("memnet: address in use")
	}
	c := &Conn{hub: h, addr: addr, in: make(chan pkt, 4096), closed: make(chan struct{})}
	h.conns[addr] = c
	return c, nil
}

func (c *Conn) ReadFromUDPAddrPort(b []byte) (int, netip.AddrPort, error) {
	select {
	case p := <-c.in:
		n := copy(b, p.b) // truncates like UDP
		return n, p.from, nil
	case <-c.closed:
		return 0, netip.AddrPort{}, net.ErrClosed
	}
}

func (c *Conn) WriteToUDPAddrPort(b []byte, addr netip.AddrPort) (int, error) {
	select {
	case <-c.closed:
		return 0, net.ErrClosed
	default:
	}
	h := c.hub
	d := Datagram{Seq: h.seq.Add(1), Src: c.addr, Dst: addr, Len: len(b)}
	h.count.Add(1)
	for {
		m := h.maxLen.Load()
		if int64(len(b)) <= m || h.maxLen.CompareAndSwap(m, int64(len(b))) {
			break
		}
	}
	if t := h.tap.Load(); t != nil {
		(*t)(d, b)
	}
	var v Verdict
	if p := h.policy.Load(); p != nil {
		v = (*p)(d)
	}
	if v.Drop {
		return len(b), nil
	}
	h.mu.RLock()
	dst := h.conns[addr]
	h.mu.RUnlock()
	if dst == nil {
		return len(b), nil
	}
	cp := append([]byte(nil), b...)
	deliver := func() {
		select {
		case dst.in <- pkt{cp, c.addr}:
		case <-dst.closed:
		default: // receiver queue full: drop like a kernel would
		}
	}
	n := 1
	if v.Dup {
		n = 2
	}
	for i := 0; i < n; i++ {
		if v.Delay > 0 {
			time.AfterFunc(v.Delay, deliver)
		} else {
			deliver()
		}
	}
	return len(b), nil
}

func (c *Conn) Close() error {
	c.once.Do(func() {
		close(c.closed)
		c.hub.mu.Lock()
		delete(c.hub.conns, c.addr)
		c.hub.mu.Unlock()
	})
	return nil
}

func (c *Conn) LocalAddr() net.Addr {
	return &net.UDPAddr{IP: c.addr.Addr().AsSlice(), Port: int(c.addr.Port())}
}

func (c *Conn) AddrPort() netip.AddrPort { return c.addr }
