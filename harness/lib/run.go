// Package lib is the shared runtime of the /verif monitors: deterministic
// PRNG streams, three-valued verdict bookkeeping, known-finding matching,
// evidence files and the parent/child process wrapper.
package lib

import (
	"crypto/sha256"
	"encoding/binary"
	"encoding/hex"
	"encoding/json"
	"fmt"
	"github.com/ethereum/go-ethereum/metrics"
	"math/rand"
	"os"
	"os/exec"
	"path/filepath"
	"regexp"
	"sort"
	"strconv"
	"strings"
	"sync"
	"time"
)

const VerifDir = "/verif"

// StateDir is where evidence/, replay/ and out/ are written: /verif unless
// VERIF_STATE_DIR is set (used when a check is run against a scratch copy of
// the repository, so that the committed evidence is not overwritten).
func StateDir() string {
	if d := os.Getenv("VERIF_STATE_DIR"); d != "" {
		return d
	}
	return VerifDir
}

// Run is the per-check context. All methods are safe for concurrent use.
type Run struct {
	ID    string
	Tier  string
	Seed  int64
	Level string
	Start time.Time

	mu           sync.Mutex
	evaluations  int64
	distinct     map[[8]byte]struct{}
	samples      []any
	maxSamples   int
	counters     map[string]int64
	violations   int
	known        map[string]int // signature id -> count
	knownPrinted map[string]bool
	inconclusive []string
	assumptions  []string
	rule         string
	extra        map[string]any
	floorMiss    []string
	kf           []KnownFinding
	warnings     []string
	exhaustive   bool
}

type KnownFinding struct {
	Property    string `json:"property"`
	ID          string `json:"id"`
	Status      string `json:"status"` // "known" | "fixed"
	Signature   string `json:"signature"`
	Description string `json:"description"`
	Commit      string `json:"commit,omitempty"`
	Witness     any    `json:"witness,omitempty"`
}

func loadKnown() []KnownFinding {
	b, err := os.ReadFile(filepath.Join(VerifDir, "known_findings.json"))
	if err != nil {
		return nil
	}
	var f struct {
		Findings []KnownFinding `json:"findings"`
	}
	if err := json.Unmarshal(b, &f); err != nil {
		fmt.Fprintf(os.Stderr, "known_findings.json unreadable: %v\n", err)
		return nil
	}
	return f.Findings
}

func Quick(r *Run) bool { return r.Tier == "quick" }

func (r *Run) Quick() bool { return r.Tier == "quick" }

// Pick returns q in the quick tier and t in the thorough tier.
func (r *Run) Pick(q, t int) int {
	if r.Quick() {
		return q
	}
	return t
}

// RNG returns a deterministic stream keyed by (seed, property, stream, idx).
func (r *Run) RNG(stream string, idx int) *rand.Rand {
	h := sha256.New()
	var b [16]byte
	binary.LittleEndian.PutUint64(b[:8], uint64(r.Seed))
	binary.LittleEndian.PutUint64(b[8:], uint64(idx))
	h.Write(b[:])
	h.Write([]byte(r.ID))
	h.Write([]byte{0})
	h.Write([]byte(stream))
	s := h.Sum(nil)
	return rand.New(rand.NewSource(int64(binary.LittleEndian.Uint64(s[:8]))))
}

func (r *Run) Eval(n int) {
	r.mu.Lock()
	r.evaluations += int64(n)
	r.mu.Unlock()
}

// Distinct records one non-trivial case under a caller-chosen identity string;
// the evidence reports the number of different identities.
func (r *Run) Distinct(key string) {
	s := sha256.Sum256([]byte(key))
	var k [8]byte
	copy(k[:], s[:8])
	r.mu.Lock()
	r.distinct[k] = struct{}{}
	r.mu.Unlock()
}

func (r *Run) DistinctBytes(parts ...[]byte) {
	h := sha256.New()
	for _, p := range parts {
		var l [4]byte
		binary.LittleEndian.PutUint32(l[:], uint32(len(p)))
		h.Write(l[:])
		h.Write(p)
	}
	var k [8]byte
	copy(k[:], h.Sum(nil)[:8])
	r.mu.Lock()
	r.distinct[k] = struct{}{}
	r.mu.Unlock()
}

// Sample keeps up to maxSamples actual cases for the evidence file.
func (r *Run) Sample(v any) {
	r.mu.Lock()
	if len(r.samples) < r.maxSamples {
		r.samples = append(r.samples, v)
	}
	r.mu.Unlock()
}

func (r *Run) WantSample() bool {
	r.mu.Lock()
	defer r.mu.Unlock()
	return len(r.samples) < r.maxSamples
}

func (r *Run) Count(name string, n int) {
	r.mu.Lock()
	r.counters[name] += int64(n)
	r.mu.Unlock()
}

func (r *Run) Max(name string, v int) {
	r.mu.Lock()
	if int64(v) > r.counters[name] {
		r.counters[name] = int64(v)
	}
	r.mu.Unlock()
}

func (r *Run) Counter(name string) int64 {
	r.mu.Lock()
	defer r.mu.Unlock()
	return r.counters[name]
}

func (r *Run) SetRule(s string)      { r.mu.Lock(); r.rule = s; r.mu.Unlock() }
func (r *Run) SetExhaustive(b bool)  { r.mu.Lock(); r.exhaustive = b; r.mu.Unlock() }
func (r *Run) Assume(s string)       { r.mu.Lock(); r.assumptions = append(r.assumptions, s); r.mu.Unlock() }
func (r *Run) Extra(k string, v any) { r.mu.Lock(); r.extra[k] = v; r.mu.Unlock() }
func (r *Run) Warn(format string, a ...any) {
	s := fmt.Sprintf(format, a...)
	r.mu.Lock()
	r.warnings = append(r.warnings, s)
	r.mu.Unlock()
	fmt.Printf("WARNING property=%s %s\n", r.ID, s)
}

// Inconclusive records a case that could not be decided (watchdog, hook not
// reached, checker timeout). It never changes the exit status by itself.
func (r *Run) Inconclusive(format string, a ...any) {
	s := fmt.Sprintf(format, a...)
	r.mu.Lock()
	n := len(r.inconclusive)
	r.inconclusive = append(r.inconclusive, s)
	r.mu.Unlock()
	if n < 20 {
		fmt.Printf("INCONCLUSIVE property=%s %s\n", r.ID, s)
	}
}

// FloorMiss records that the run as a whole did not execute what its case list
// demands (exit 2, no verdict).
func (r *Run) FloorMiss(format string, a ...any) {
	s := fmt.Sprintf(format, a...)
	r.mu.Lock()
	r.floorMiss = append(r.floorMiss, s)
	r.mu.Unlock()
}

// Violation reports a refuting observation. sig identifies the failing input /
// call site / history class; if known_findings.json lists it as "known" for
// this property the run prints a KNOWN-FINDING line instead and goes on.
// witness is written to /verif/replay/<id>/ for a real violation.
func (r *Run) Violation(sig string, what string, witness any) bool {
	r.mu.Lock()
	for _, k := range r.kf {
		if k.Property != r.ID || k.Status != "known" {
			continue
		}
		if matchSig(k.Signature, sig) {
			r.known[k.ID]++
			first := !r.knownPrinted[k.ID]
			r.knownPrinted[k.ID] = true
			r.mu.Unlock()
			if first {
				fmt.Printf("KNOWN-FINDING: property=%s %s [%s] first-witness: %s\n", r.ID, k.Description, k.ID, oneLine(what, 300))
			}
			return false
		}
	}
	r.violations++
	n := r.violations
	r.mu.Unlock()
	if n > 25 {
		return true // enough witnesses; keep counting only
	}
	dir := filepath.Join(StateDir(), "replay", r.ID)
	_ = os.MkdirAll(dir, 0o755)
	path := filepath.Join(dir, fmt.Sprintf("%s-seed%d-%d.json", r.Tier, r.Seed, n))
	w := map[string]any{"property": r.ID, "tier": r.Tier, "seed": r.Seed, "signature": sig, "what": what, "witness": witness}
	b, _ := json.MarshalIndent(w, "", " ")
	_ = os.WriteFile(path, b, 0o644)
	fmt.Printf("VIOLATION property=%s replay=%s\n", r.ID, path)
	fmt.Printf("  signature: %s\n  what: %s\n", sig, oneLine(what, 600))
	return true
}

func (r *Run) Violations() int {
	r.mu.Lock()
	defer r.mu.Unlock()
	return r.violations
}

func matchSig(pattern, sig string) bool {
	if strings.HasPrefix(pattern, "re:") {
		re, err := regexp.Compile(pattern[3:])
		return err == nil && re.MatchString(sig)
	}
	return pattern == sig
}

func oneLine(s string, max int) string {
	s = strings.ReplaceAll(s, "\n", " | ")
	if len(s) > max {
		s = s[:max] + "…"
	}
	return s
}

func Hex(b []byte) string { return hex.EncodeToString(b) }

func HexShort(b []byte, n int) string {
	if len(b) <= n {
		return hex.EncodeToString(b)
	}
	return hex.EncodeToString(b[:n]) + fmt.Sprintf("…(%dB)", len(b))
}

type evidence struct {
	PropertyID  string         `json:"property_id"`
	Tier        string         `json:"tier"`
	Seed        int64          `json:"seed"`
	Level       string         `json:"level"`
	Coverage    map[string]any `json:"coverage"`
	Assumptions []string       `json:"assumptions"`
	WallS       float64        `json:"wall_s"`
	Violations  int            `json:"violations"`
}

func (r *Run) writeEvidence() {
	r.mu.Lock()
	defer r.mu.Unlock()
	cov := map[string]any{
		"evaluations":         r.evaluations,
		"distinct_nontrivial": len(r.distinct),
		"rule":                r.rule,
		"samples":             r.samples,
	}
	if r.exhaustive {
		cov["exhaustive"] = true
	}
	names := make([]string, 0, len(r.counters))
	for k := range r.counters {
		names = append(names, k)
	}
	sort.Strings(names)
	cnt := map[string]int64{}
	for _, k := range names {
		cnt[k] = r.counters[k]
	}
	cov["counters"] = cnt
	cov["inconclusive"] = len(r.inconclusive)
	if len(r.inconclusive) > 0 {
		m := r.inconclusive
		if len(m) > 10 {
			m = m[:10]
		}
		cov["inconclusive_reasons"] = m
	}
	cov["known_findings_seen"] = r.known
	if len(r.warnings) > 0 {
		cov["warnings"] = r.warnings
	}
	if len(r.floorMiss) > 0 {
		cov["execution_floor_missed"] = r.floorMiss
	}
	for k, v := range r.extra {
		cov[k] = v
	}
	if r.samples == nil {
		cov["samples"] = []any{}
	}
	ev := evidence{
		PropertyID: r.ID, Tier: r.Tier, Seed: r.Seed, Level: r.Level,
		Coverage: cov, Assumptions: r.assumptions,
		WallS:      time.Since(r.Start).Seconds(),
		Violations: r.violations,
	}
	if ev.Assumptions == nil {
		ev.Assumptions = []string{}
	}
	b, err := json.MarshalIndent(ev, "", " ")
	if err != nil {
		fmt.Fprintf(os.Stderr, "evidence marshal: %v\n", err)
		return
	}
	dir := filepath.Join(StateDir(), "evidence")
	_ = os.MkdirAll(dir, 0o755)
	_ = os.WriteFile(filepath.Join(dir, r.ID+".json"), append(b, '\n'), 0o644)
}

// Main is the entry point of every check binary:
//
//	<bin> quick|thorough            parent: re-executes itself as a child, classifies crashes
//	<bin> quick|thorough --child    child: runs fn, writes evidence, exits 0/1/2
//
// Options configure the parent-side post-processing of a check.
type Options struct {
	// StateRaceAnchors are regexps over shortened shisui function names
	// ("portalwire.(*Table).handleAddNode"). A race-detector report whose two
	// access stacks both have their innermost shisui frame matching one of them
	// is a state race of this property (DESIGN §3.5) and therefore a violation;
	// every other report is listed as unrelated.
	StateRaceAnchors []string
}

func Main(id, level string, fn func(r *Run), opts ...Options) {
	var opt Options
	if len(opts) > 0 {
		opt = opts[0]
	}
	tier := "quick"
	child := false
	for _, a := range os.Args[1:] {
		switch a {
		case "quick", "thorough":
			tier = a
		case "--child":
			child = true
		}
	}
	if t := os.Getenv("VERIF_TIER"); t == "quick" || t == "thorough" {
		if len(os.Args) < 2 || (os.Args[1] != "quick" && os.Args[1] != "thorough") {
			tier = t
		}
	}
	seed := int64(1)
	if s := os.Getenv("VERIF_SEED"); s != "" {
		if v, err := strconv.ParseInt(s, 10, 64); err == nil {
			seed = v
		}
	}
	if !child && os.Getenv("VERIF_NO_FORK") == "" {
		os.Exit(parent(id, level, tier, seed, opt))
	}
	r := NewRun(id, level, tier, seed)
	if MetricsWanted(tier) {
		// as cmd/shisui does with --metrics: switched on at run time, after package initialisation and before any
		// node exists. It cannot be switched off again in a process, so it is a property of the whole run.
		metrics.Enable()
		r.Assume("go-ethereum metrics are enabled in this run (the production --metrics configuration; thorough tier and VERIF_METRICS=1), so the metrics-gated branches of the code execute")
	}
	fn(r)
	code := r.Finish()
	if child && code == 2 {
		code = childInconclusive // a Go panic also exits with 2; keep the two apart
	}
	os.Exit(code)
}

const childInconclusive = 3

// MetricsWanted: the thorough tier runs with metrics enabled, the quick tier without (VERIF_METRICS=0/1 overrides).
func MetricsWanted(tier string) bool {
	switch os.Getenv("VERIF_METRICS") {
	case "1":
		return true
	case "0":
		return false
	}
	return tier == "thorough"
}

func NewRun(id, level, tier string, seed int64) *Run {
	return &Run{
		ID: id, Tier: tier, Seed: seed, Level: level, Start: time.Now(),
		distinct: map[[8]byte]struct{}{}, counters: map[string]int64{},
		known: map[string]int{}, knownPrinted: map[string]bool{},
		extra: map[string]any{}, maxSamples: 8, kf: loadKnown(),
	}
}

// Finish writes the evidence file, prints the summary and returns the exit status.
func (r *Run) Finish() int {
	r.mu.Lock()
	if r.evaluations == 0 {
		r.floorMiss = append(r.floorMiss, "zero evaluations")
	}
	r.mu.Unlock()
	r.writeEvidence()
	r.mu.Lock()
	defer r.mu.Unlock()
	fmt.Printf("SUMMARY property=%s tier=%s seed=%d evaluations=%d distinct_nontrivial=%d violations=%d known=%d inconclusive=%d wall=%.1fs\n",
		r.ID, r.Tier, r.Seed, r.evaluations, len(r.distinct), r.violations, len(r.known), len(r.inconclusive), time.Since(r.Start).Seconds())
	names := make([]string, 0, len(r.counters))
	for k := range r.counters {
		names = append(names, k)
	}
	sort.Strings(names)
	var sb strings.Builder
	for _, k := range names {
		fmt.Fprintf(&sb, " %s=%d", k, r.counters[k])
	}
	fmt.Printf("COUNTERS property=%s%s\n", r.ID, sb.String())
	if r.violations > 0 {
		return 1
	}
	if len(r.floorMiss) > 0 {
		fmt.Printf("INCONCLUSIVE property=%s execution floor missed: %s\n", r.ID, strings.Join(r.floorMiss, "; "))
		return 2
	}
	return 0
}

// parent runs the check in a child process so that a Go panic, fatal error or
// sanitizer abort inside shisui code (which no recover() can intercept when it
// happens on a dependency goroutine) is observed and classified.
func parent(id, level, tier string, seed int64, opt Options) int {
	start := time.Now()
	outDir := filepath.Join(StateDir(), "out", id)
	_ = os.MkdirAll(outDir, 0o755)
	errPath := filepath.Join(outDir, fmt.Sprintf("child-%s.stderr", tier))
	ef, err := os.Create(errPath)
	if err != nil {
		fmt.Printf("INCONCLUSIVE property=%s cannot create %s: %v\n", id, errPath, err)
		return 2
	}
	args := append([]string{}, os.Args[1:]...)
	args = append(args, "--child")
	cmd := exec.Command(os.Args[0], args...)
	cmd.Stdout = os.Stdout
	cmd.Stderr = ef
	cmd.Env = os.Environ()
	// everything the child (and its own children) creates through os.MkdirTemp lands in one scratch
	// directory that is removed here, also when the child crashed or was killed by a watchdog
	if scratch, err := os.MkdirTemp("", "verif-"+id+"-scratch-"); err == nil {
		defer os.RemoveAll(scratch)
		cmd.Env = append(cmd.Env, "TMPDIR="+scratch)
	}
	if os.Getenv("GORACE") == "" {
		cmd.Env = append(cmd.Env, "GORACE=halt_on_error=0 exitcode=0 log_path="+filepath.Join(outDir, "race-"+tier))
	}
	if os.Getenv("GOTRACEBACK") == "" {
		cmd.Env = append(cmd.Env, "GOTRACEBACK=all")
	}
	// remove stale race logs
	if old, _ := filepath.Glob(filepath.Join(outDir, "race-"+tier+".*")); len(old) > 0 {
		for _, f := range old {
			_ = os.Remove(f)
		}
	}
	err = cmd.Run()
	ef.Close()
	code := 0
	if err != nil {
		if ee, ok := err.(*exec.ExitError); ok {
			code = ee.ExitCode()
		} else {
			fmt.Printf("INCONCLUSIVE property=%s cannot run child: %v\n", id, err)
			return 2
		}
	}
	if code == childInconclusive {
		code = 2
		return postRace(id, level, tier, seed, code, filepath.Join(outDir, "race-"+tier), opt)
	}
	if code == 0 || code == 1 {
		return postRace(id, level, tier, seed, code, filepath.Join(outDir, "race-"+tier), opt)
	}
	// The child died. Decide whether shisui (or a dependency running shisui's
	// request) crashed, or the harness itself did.
	b, _ := os.ReadFile(errPath)
	cr := ClassifyCrash(string(b))
	r := NewRun(id, level, tier, seed)
	r.Start = start
	r.SetRule("child process crashed before writing evidence; see crash witness")
	r.Eval(1)
	r.Distinct("crash")
	r.Distinct("crash-2")
	r.Sample(map[string]any{"crash": cr.Message, "top_frames": cr.Frames})
	if cr.Harness {
		r.FloorMiss("harness crash (exit %d): %s", code, cr.Message)
	} else {
		r.Violation("crash:"+cr.Site, fmt.Sprintf("process died (exit %d): %s at %s", code, cr.Message, cr.Site),
			map[string]any{"stderr_tail": tail(string(b), 6000), "frames": cr.Frames})
	}
	return r.Finish()
}

func tail(s string, n int) string {
	if len(s) <= n {
		return s
	}
	return s[len(s)-n:]
}

type Crash struct {
	Message string
	Site    string   // first non-runtime frame function
	Frames  []string // top frames of the crashing goroutine
	Harness bool     // crash originated in harness code only
}

var frameRe = regexp.MustCompile(`^([\w./\-~%]+(?:\.\(?[\w*\[\]\.]+\)?)+)\(`)

// ClassifyCrash extracts message and top frames from a Go crash dump.
func ClassifyCrash(stderr string) Crash {
	lines := strings.Split(stderr, "\n")
	c := Crash{}
	start := -1
	for i, l := range lines {
		if strings.HasPrefix(l, "panic: ") || strings.HasPrefix(l, "fatal error: ") || strings.Contains(l, "==ERROR: AddressSanitizer") {
			c.Message = strings.TrimSpace(l)
			start = i
			break
		}
	}
	if start == -1 {
		c.Message = "no panic message (killed or exited): " + oneLine(tail(stderr, 300), 300)
		c.Harness = true
		return c
	}
	// frames of the first goroutine after the message
	inG := false
	for _, l := range lines[start+1:] {
		if strings.HasPrefix(l, "goroutine ") {
			if inG {
				break
			}
			inG = true
			continue
		}
		if !inG {
			if strings.HasPrefix(l, "\t") || l == "" || strings.HasPrefix(l, "[signal") {
				continue
			}
			// extra panic text lines
			continue
		}
		if l == "" {
			break
		}
		if strings.HasPrefix(l, "\t") {
			continue
		}
		if m := frameRe.FindStringSubmatch(l); m != nil {
			c.Frames = append(c.Frames, m[1])
		} else if i := strings.LastIndex(l, "("); i > 0 {
			c.Frames = append(c.Frames, l[:i])
		}
		if len(c.Frames) >= 14 {
			break
		}
	}
	c.Harness = true
	for _, f := range c.Frames {
		if strings.HasPrefix(f, "runtime.") || strings.HasPrefix(f, "panic") || strings.HasPrefix(f, "runtime/") {
			continue
		}
		if c.Site == "" {
			c.Site = f
		}
		if strings.HasPrefix(f, "verifharness/") || strings.HasPrefix(f, "main.") {
			break
		}
		if strings.Contains(f, "zen-eth/shisui") {
			c.Harness = false
			// prefer the first shisui frame as the site
			c.Site = f
			break
		}
	}
	if c.Harness {
		// a crash entirely inside dependencies, reached from a dependency goroutine
		// (e.g. discv5 talk handler), is not a harness crash if no harness frame precedes
		sawHarness := false
		for _, f := range c.Frames {
			if strings.HasPrefix(f, "verifharness/") || strings.HasPrefix(f, "main.") {
				sawHarness = true
			}
		}
		if !sawHarness && c.Site != "" {
			c.Harness = false
		}
	}
	return c
}

// postRace folds the race detector's log into the verdict and the evidence file.
func postRace(id, level, tier string, seed int64, code int, prefix string, opt Options) int {
	reports := ParseRaceLogs(prefix)
	if len(reports) == 0 {
		return code
	}
	var anchors []*regexp.Regexp
	for _, a := range opt.StateRaceAnchors {
		anchors = append(anchors, regexp.MustCompile(a))
	}
	r := NewRun(id, level, tier, seed)
	type pairInfo struct {
		Count int      `json:"count"`
		State bool     `json:"state_race"`
		A     []string `json:"stack_a"`
		B     []string `json:"stack_b"`
	}
	pairs := map[string]*pairInfo{}
	var order []string
	for _, rep := range reports {
		sig := rep.PairSignature()
		pi := pairs[sig]
		if pi == nil {
			pi = &pairInfo{State: rep.IsStateRace(anchors), A: ShisuiFrames(rep.A), B: ShisuiFrames(rep.B)}
			pairs[sig] = pi
			order = append(order, sig)
		}
		pi.Count++
	}
	sort.Strings(order)
	state, unrelated := 0, 0
	for _, sig := range order {
		pi := pairs[sig]
		if pi.State {
			state++
			var raw string
			for _, rep := range reports {
				if rep.PairSignature() == sig {
					raw = rep.Raw
					break
				}
			}
			r.Violation("race:"+sig, fmt.Sprintf("data race on the state this property is about (%d reports): %s", pi.Count, sig),
				map[string]any{"pair": sig, "reports": pi.Count, "first_report": tail(raw, 5000)})
		} else {
			unrelated++
			fmt.Printf("INFO property=%s unrelated race report pair (%d reports): %s\n", id, pi.Count, sig)
		}
	}
	// patch the evidence file the child wrote
	evPath := filepath.Join(StateDir(), "evidence", id+".json")
	if b, err := os.ReadFile(evPath); err == nil {
		var ev map[string]any
		if json.Unmarshal(b, &ev) == nil {
			cov, _ := ev["coverage"].(map[string]any)
			if cov == nil {
				cov = map[string]any{}
			}
			cov["race_reports"] = len(reports)
			cov["race_distinct_pairs"] = pairs
			cov["state_race_pairs"] = state
			cov["unrelated_race_pairs"] = unrelated
			if kf, ok := cov["known_findings_seen"].(map[string]any); ok {
				for k, v := range r.known {
					kf[k] = v
				}
			} else {
				cov["known_findings_seen"] = r.known
			}
			ev["coverage"] = cov
			if v, ok := ev["violations"].(float64); ok {
				ev["violations"] = int(v) + r.violations
			}
			if nb, err := json.MarshalIndent(ev, "", " "); err == nil {
				_ = os.WriteFile(evPath, append(nb, '\n'), 0o644)
			}
		}
	}
	fmt.Printf("RACE property=%s reports=%d distinct_pairs=%d state_pairs=%d unrelated_pairs=%d\n", id, len(reports), len(pairs), state, unrelated)
	if r.violations > 0 {
		return 1
	}
	return code
}
