package lib

import (
	"os"
	"path/filepath"
	"regexp"
	"sort"
	"strings"
)

// RaceReport is one "WARNING: DATA RACE" block reduced to the function names of
// its two access stacks (innermost first).
type RaceReport struct {
	A, B []string
	Raw  string
}

var raceFuncRe = regexp.MustCompile(`^  ([^\s(][^\s]*)\(`)

// ParseRaceLogs reads every file matching prefix.* written by the race detector.
func ParseRaceLogs(prefix string) []RaceReport {
	files, _ := filepath.Glob(prefix + ".*")
	var out []RaceReport
	for _, f := range files {
		b, err := os.ReadFile(f)
		if err != nil {
			continue
		}
		out = append(out, parseRaceText(string(b))...)
	}
	return out
}

func parseRaceText(s string) []RaceReport {
	var out []RaceReport
	blocks := strings.Split(s, "WARNING: DATA RACE")
	for _, blk := range blocks[1:] {
		if i := strings.Index(blk, "=================="); i >= 0 {
			blk = blk[:i]
		}
		var stacks [][]string
		var cur []string
		inAccess := false
		for _, l := range strings.Split(blk, "\n") {
			switch {
			case strings.HasPrefix(l, "Read at ") || strings.HasPrefix(l, "Write at ") ||
				strings.HasPrefix(l, "Previous read at ") || strings.HasPrefix(l, "Previous write at ") ||
				strings.HasPrefix(l, "Atomic ") || strings.HasPrefix(l, "Previous atomic "):
				if inAccess {
					stacks = append(stacks, cur)
				}
				cur = nil
				inAccess = true
			case strings.HasPrefix(l, "Goroutine ") || strings.HasPrefix(l, "Location:"):
				if inAccess {
					stacks = append(stacks, cur)
					cur = nil
					inAccess = false
				}
			default:
				if inAccess {
					if m := raceFuncRe.FindStringSubmatch(l); m != nil {
						cur = append(cur, m[1])
					}
				}
			}
		}
		if inAccess {
			stacks = append(stacks, cur)
		}
		r := RaceReport{Raw: blk}
		if len(stacks) > 0 {
			r.A = dedupeAdjacent(stacks[0])
		}
		if len(stacks) > 1 {
			r.B = dedupeAdjacent(stacks[1])
		}
		out = append(out, r)
	}
	return out
}

func dedupeAdjacent(s []string) []string {
	var o []string
	for _, f := range s {
		f = normFunc(f)
		if len(o) == 0 || o[len(o)-1] != f {
			o = append(o, f)
		}
	}
	return o
}

var funcSuffixRe = regexp.MustCompile(`\.func\d+(\.\d+)*$|\.gowrap\d+$|\.deferwrap\d+$`)

func normFunc(f string) string {
	for {
		n := funcSuffixRe.ReplaceAllString(f, "")
		if n == f {
			return f
		}
		f = n
	}
}

// TopShisui returns the innermost frame of the stack that belongs to shisui.
func TopShisui(stack []string) string {
	for _, f := range stack {
		if strings.Contains(f, "zen-eth/shisui/") {
			return strings.TrimPrefix(f, "github.com/zen-eth/shisui/")
		}
	}
	if len(stack) > 0 {
		return stack[0]
	}
	return "?"
}

// ShisuiFrames returns all shisui frames of a stack, shortened.
func ShisuiFrames(stack []string) []string {
	var o []string
	for _, f := range stack {
		if strings.Contains(f, "zen-eth/shisui/") {
			o = append(o, strings.TrimPrefix(f, "github.com/zen-eth/shisui/"))
		}
	}
	return o
}

// PairSignature is the order-independent identity of a report: the two
// innermost shisui frames.
func (r RaceReport) PairSignature() string {
	a, b := TopShisui(r.A), TopShisui(r.B)
	p := []string{a, b}
	sort.Strings(p)
	return p[0] + " <-> " + p[1]
}

// IsStateRace reports whether both access stacks have their innermost shisui
// frame inside the anchored mechanism (any of the regexps).
func (r RaceReport) IsStateRace(anchors []*regexp.Regexp) bool {
	in := func(stack []string) bool {
		t := TopShisui(stack)
		for _, re := range anchors {
			if re.MatchString(t) {
				return true
			}
		}
		return false
	}
	return in(r.A) && in(r.B)
}
